#!/bin/bash
# offline setup: nothing to fetch; builds the real llw once so that the first check does not pay for it
cd "$(dirname "$0")"
export CARGO_NET_OFFLINE=true
mkdir -p .work evidence
# Scratch state that is NOT addressed by the content it was derived from must not survive into a new session: binaries copied
# out of earlier builds, path caches of earlier sessions, run directories, and the source stamps of the cargo target
# directories (removing a stamp makes the next build recompile the lelwel crate from /repo's current source whatever the
# modification times say, see mirse/harness.py refresh_target).  What stays is content-addressed (.work/h/<sha of the emitted
# parser + harness>) or third-party dependency objects.
rm -rf .work/bin .work/cache .work/llw-run .work/c15-twice .work/c15-twice-replay .work/c19-* .work/*.mir .work/*.mir.err
rm -f .work/*/verif-source.stamp
python3-vt -c "import z3; print('z3', z3.get_version_string())"
python3-vt -c "import sys; sys.path.insert(0, '.'); from mirse import harness; print(harness.build_llw())"
