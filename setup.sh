#!/bin/bash
# offline setup: nothing to fetch; builds the real llw once so that the first check does not pay for it
cd "$(dirname "$0")"
export CARGO_NET_OFFLINE=true
mkdir -p .work evidence
python3-vt -c "import z3; print('z3', z3.get_version_string())"
python3-vt -c "import sys; sys.path.insert(0, '.'); from mirse import harness; print(harness.build_llw())"
