import json
NA = {
 'C09': "quantifier is over grammars only; calc_first/follow/predict run over a heap CST through string-keyed FxHashMap/BTreeSet<Cow<str>> - a symbolic grammar is out of reach of Kani (Vec alone defeats it) and of the MIR executor (no string/hash-map theory); with a concrete grammar nothing symbolic is left for a solver",
 'C10': "same code and reason as C09; rejected grammars produce no parser that could be executed symbolically (behavioural consequences for accepted corpus grammars are covered by C03/C04)",
 'C11': "decided by rustc's exit status and file presence over sampled grammars; no input dimension a solver could decide",
 'C14': "same as C09 (RecoverySetGenerator over FxHashMap<Regex, FxHashSet<Regex>>); quantifier over grammars only",
 'C17': "text is produced by dprint_core::formatting::format (external crate, Rc closures, arenas); no MIR for it and Kani cannot execute it; a model of dprint would not be the real code",
 'C18': "same as C17",
 'C20': "threads + mpsc channels + JSON-RPC over stdio + codespan_lsp: Kani does not handle concurrency, the MIR executor has no thread model",
}
checks = json.load(open('/verif/tools/checks.json'))
claimed = {c['property_id'] for c in checks}
m = {
 "version": 1,
 "setup_cmd": "./setup.sh",
 "hooks": {"guard": "none", "enable": "no source hooks: every harness is an external crate around freshly emitted code or a MIR dump of the unmodified lelwel crate; interception happens at MIR call edges inside the interpreter", "baseline_off_cmd": "cd /repo && cargo test --workspace --no-fail-fast --offline", "source_commits": [], "add_only": True},
 "engines": [
   {"name": "MIRSE", "path": "mirse/", "serves_properties": sorted(claimed), "kind_free_text": "path-wise symbolic executor for rustc MIR (Python + z3): token kinds and callback outcomes symbolic, every branch on symbolic data decided by z3, property = query PC and not P per path, counterexamples replayed on the natively built real parser"},
 ],
 "checks": checks,
 "not_applicable": [{"property_id": k, "reason": v} for k, v in sorted(NA.items()) if k not in claimed] + [{"property_id": k, "reason": "check not built yet in this session (see DESIGN.md)"} for k in ['C05','C07','C08','C12','C13','C15','C16','C19'] if k not in claimed],
 "notes": "All claims are bounded (grammar corpus enumerated concretely, inputs symbolic up to a token bound); see DESIGN.md section 4.",
}
json.dump(m, open('/verif/MANIFEST.json','w'), indent=1)
