#!/bin/bash
# usage: tools/try_mutant.sh <patch.diff> <check id>...   - applies a seeded change to /repo, runs the checks, reverts
set -u
PATCH=$1; shift
cd /repo || exit 9
if ! git diff --quiet; then echo "/repo working tree not clean"; exit 9; fi
git apply --check "$PATCH" || { echo "patch does not apply"; exit 9; }
git apply "$PATCH"
trap 'cd /repo && git checkout -- . ' EXIT
cd /verif
for c in "$@"; do
  echo "=== $c on mutant"
  ./check $c quick 2>&1 | grep -E "^VIOLATION|^   grammar|^KNOWN|^C[0-9]+:|INCONCLUSIVE" | cut -c1-260 | head -${MAXLINES:-12}
  echo "exit=${PIPESTATUS[0]}"
done
