#!/bin/bash
# usage: tools/try_mutant_wt.sh <patch.diff> <check id>...   - like try_mutant.sh, but /repo is left alone: the change is applied to a
# scratch worktree under /tmp/wtm and the checks are pointed at it with VERIF_REPO (use this while another run reads /repo)
set -u
PATCH=$(realpath "$1"); shift
WT=/tmp/wtm/$$; mkdir -p /tmp/wtm
git -C /repo worktree add -q --detach $WT HEAD || exit 9
trap 'git -C /repo worktree remove --force $WT' EXIT
git -C $WT apply "$PATCH" || { echo "patch does not apply"; exit 9; }
cd /verif
for c in "$@"; do
  echo "=== $c on mutant (VERIF_REPO=$WT)"
  VERIF_REPO=$WT ./check $c quick 2>&1 | grep -E "^VIOLATION|^   grammar|^KNOWN|^C[0-9]+:|INCONCLUSIVE" | cut -c1-260 | head -${MAXLINES:-12}
  echo "exit=${PIPESTATUS[0]}"
done
