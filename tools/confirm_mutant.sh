#!/bin/bash
# usage: tools/confirm_mutant.sh <id> <deliver dir>   - fresh worktree of /repo HEAD, apply patch, run tests + demo both ways
ID=$1; DEL=$2; WT=/tmp/wtc/$ID; OUT=/tmp/wtc/$ID.confirm.log
mkdir -p /tmp/wtc
{
cd /repo && git worktree add -q --detach $WT HEAD || exit 9
cd $WT
echo "== demo without the change (expect 0)"
CARGO_TARGET_DIR=$WT/target bash $DEL/demo/run.sh $WT > /tmp/wtc/$ID.demo_clean.log 2>&1; echo "exit=$?"
git apply $DEL/patch.diff || echo "PATCH DOES NOT APPLY"
echo "== git diff --stat"; git diff --stat
echo "== tests with the change"
cargo test --workspace --no-fail-fast --offline --target-dir $WT/target 2>&1 | grep -E "^test result" | awk '{p+=$4; f+=$6} END {print "passed",p,"failed",f}'
echo "== demo with the change (expect non-zero)"
CARGO_TARGET_DIR=$WT/target bash $DEL/demo/run.sh $WT > /tmp/wtc/$ID.demo_mut.log 2>&1; echo "exit=$?"
cd /repo && git worktree remove --force $WT
} > $OUT 2>&1
