#!/bin/bash
# usage: tools/confirm_mutant.sh <id>   (worktree /tmp/wt/<id> with the change applied and deliver/ inside)
ID=$1; WT=/tmp/wt/$ID; OUT=/tmp/wt/$ID.confirm.log
{
cd $WT
echo "== git diff --stat"; git diff --stat -- . ':!deliver'
echo "== tests with the change"
cargo test --workspace --no-fail-fast --offline --target-dir $WT/target 2>&1 | grep -E "^test result" | awk '{p+=$4; f+=$6} END {print "passed",p,"failed",f}'
echo "== demo with the change (expect non-zero)"
CARGO_TARGET_DIR=$WT/target bash deliver/demo/run.sh $WT > /tmp/wt/$ID.demo_mut.log 2>&1; echo "exit=$?"
echo "== demo without the change (expect 0)"
git stash -q
CARGO_TARGET_DIR=$WT/target bash deliver/demo/run.sh $WT > /tmp/wt/$ID.demo_clean.log 2>&1; echo "exit=$?"
git stash pop -q
git diff --stat -- . ':!deliver' | tail -1
} > $OUT 2>&1
