"""C02, histories quantifier: the real CstData tree builder (skeleton code as emitted into a generated.rs) driven by a
SYMBOLIC sequence of builder operations of length <= L, checked against a reference tree model.
The op code and the mark argument of every step are solver variables; the interpreter forks over the applicable values
(z3 decides), so the set of paths is exactly the set of well-nested histories of that length.
Nesting discipline (read off what src/backend/rust.rs emits):
 * open nodes are closed LIFO; after the history all open nodes are closed and the root with close_root
 * a token is pushed together with the skipped tokens that follow it (Parser::advance); leading trivia only at the start
 * a MarkClosed (mark()) may be passed to open_before only while the node that was innermost when it was taken is still
   the innermost open node; using it invalidates the marks taken after it (enforced statically by check_node_creation)
 * the node created by open_before is either closed at once (node creation, conditional elision) or stays open (Pratt)
 * mark_truncation / truncate bracket an attempt: while a snapshot is live neither older marks are used nor older nodes
   closed; truncate restores the snapshot and discards everything since, including nodes opened and never closed."""
import os, time, json, copy, traceback, random
import z3
from . import harness, run, corpus
from .interp import *
from .mir import Unsupported

class RNode:
    __slots__ = ('kind', 'kids')
    def __init__(self, kind): self.kind = kind; self.kids = []

def flatten(n, out):
    """reference linear layout: rule node = (R, kind, number of nodes in its subtree), token = (T, token index)"""
    if isinstance(n, tuple): out.append(('T', n[1])); return 1
    i = len(out); out.append(None); size = 0
    for k in n.kids: size += flatten(k, out)
    out[i] = ('R', n.kind, size)
    return size + 1

def ref_shape(n):
    if isinstance(n, tuple): return ('T', n[1])
    return ('R', n.kind, [ref_shape(k) for k in n.kids])

OPS = ['open', 'close', 'token', 'token+trivia', 'mark', 'wrap-closed', 'wrap-open', 'snapshot', 'restore', 'drop-snapshot']

def explore_histories(pp, L, max_paths=None):
    B = pp.prog.byname
    F = {k: B['CstData::' + k] for k in ('new', 'open', 'close', 'close_root', 'advance', 'open_before', 'mark', 'mark_truncation', 'truncate', 'children', 'get')}
    f_next = B['<CstChildren as Iterator>::next']
    solver = run.Solver()
    opv = [z3.Int(f'op{k}') for k in range(L)]; argv = [z3.Int(f'arg{k}') for k in range(L)]
    for v in opv: solver.add_base(z3.And(v >= 0, v < len(OPS)))
    for v in argv: solver.add_base(z3.And(v >= 0, v < 8))
    tok_kind = pp.h.first_tok                   # a concrete ordinary token kind; the skip flag is passed explicitly
    rule_kinds = [1, 2] if len(pp.rule_names) > 2 else [0, 0]
    work = [[]]; npaths = 0; steps = 0; viol = []; samples = []; fns = set(); mods = set(); hist_lengths = {}
    while work:
        dec = work.pop()
        r = run.Run(pp.prog, pp.types, solver, dec); r.MAX_STEPS = 100_000
        solver.reset_pc()
        nspans = 2 * L + 4
        spans = VecObj([Agg('Range', None, [i, i + 1]) for i in range(nspans)])
        data = r.call(F['new'], [spans]); dcell = [data]; dref = Ref(dcell, 0)
        # reference state
        root = RNode('root'); open_stack = [root]; real_open = []; marks = []; snaps = []; ntok = 0; hist = []
        status = 'ok'; msg = ''
        def tok(skip):
            nonlocal ntok
            r.call(F['advance'], [dref, Agg('Token', tok_kind, []), skip])
            open_stack[-1].kids.append(('T', ntok, skip)); ntok += 1
        def do_close(node, mo, kind):
            # trailing skipped tokens are not part of the closing node: they spill to the parent
            r.call(F['close'], [dref, mo, Agg('Rule', kind, [])])
            spill = []
            while node.kids and isinstance(node.kids[-1], tuple) and node.kids[-1][2]: spill.insert(0, node.kids.pop())
            node.kind = kind
            open_stack[-2 if open_stack[-1] is node else -1].kids.extend(spill) if False else None
            return spill
        try:
            m0 = r.call(F['open'], [dref])
            lead = r.choose([(argv[0] % 2 == 0, False), (argv[0] % 2 == 1, True)]) if L > 0 else False
            if lead:      # leading trivia (init_skip)
                r.call(F['advance'], [dref, Agg('Token', tok_kind, []), True]); root.kids.append(('T', ntok, True)); ntok += 1
            for k in range(L):
                cur = open_stack[-1]
                live_snap = snaps[-1] if snaps else None
                usable_marks = [j for j, mk in enumerate(marks) if mk['owner'] is cur and (live_snap is None or mk['born'] >= live_snap['born'])]
                can_close = len(open_stack) > 1 and (live_snap is None or real_open[-1]['born'] >= live_snap['born'])
                app = [0, 2, 3, 4]
                if can_close: app.append(1)
                if usable_marks: app += [5, 6]
                if len(snaps) < 2: app.append(7)
                if snaps: app += [8, 9]
                op = r.choose_among([(opv[k] == c, c) for c in sorted(app)])
                if op == 0:
                    mo = r.call(F['open'], [dref]); n = RNode(None); cur.kids.append(n); open_stack.append(n); real_open.append(dict(mo=mo, born=k)); hist.append('open')
                elif op == 1:
                    node = open_stack.pop(); ro = real_open.pop(); kind = rule_kinds[k % 2]
                    r.call(F['close'], [dref, ro['mo'], Agg('Rule', kind, [])]); node.kind = kind
                    spill = []
                    while node.kids and isinstance(node.kids[-1], tuple) and node.kids[-1][2]: spill.insert(0, node.kids.pop())
                    open_stack[-1].kids.extend(spill)
                    marks[:] = [mk for mk in marks if mk['owner'] is not node]
                    hist.append('close')
                elif op == 2: tok(False); hist.append('token')
                elif op == 3: tok(False); tok(True); hist.append('token+trivia')
                elif op == 4:
                    mc = r.call(F['mark'], [dref]); marks.append(dict(mc=mc, owner=cur, pos=len(cur.kids), born=k)); hist.append('mark')
                elif op in (5, 6):
                    j = r.choose_among([(argv[k] == x, j) for x, j in enumerate(usable_marks)])
                    mk = marks[j]
                    mo = r.call(F['open_before'], [dref, copyval(mk['mc'])])
                    n = RNode(None); n.kids = cur.kids[mk['pos']:]; del cur.kids[mk['pos']:]; cur.kids.append(n)
                    # marks taken after this one (in the same node) are invalid now
                    marks[:] = [m2 for m2 in marks if not (m2['owner'] is cur and m2['pos'] > mk['pos'])]
                    # marks inside the wrapped range now belong to the new node only if they point past its start: dropped
                    if op == 5:
                        kind = rule_kinds[(k + 1) % 2]
                        r.call(F['close'], [dref, mo, Agg('Rule', kind, [])]); n.kind = kind
                        spill = []
                        while n.kids and isinstance(n.kids[-1], tuple) and n.kids[-1][2]: spill.insert(0, n.kids.pop())
                        cur.kids.extend(spill)
                        hist.append(f'wrap-closed(mark {j})')
                    else:
                        open_stack.append(n); real_open.append(dict(mo=mo, born=k)); hist.append(f'wrap-open(mark {j})')
                elif op == 7:
                    mt = r.call(F['mark_truncation'], [dref])
                    snaps.append(dict(mt=mt, born=k, ref=copy.deepcopy((root, [id(x) for x in open_stack], ntok)), depth=len(open_stack), ntok=ntok,
                                      path=[[p.kids.index(c) for p, c in zip(open_stack, open_stack[1:])]], nmarks=len(marks), nreal=len(real_open)))
                    hist.append('snapshot')
                elif op == 8:
                    s = snaps[-1]
                    r.call(F['truncate'], [dref, copyval(s['mt'])])
                    # reference: restore the tree as it was (deep copy), re-locate the open nodes along the recorded child indices
                    new_root = copy.deepcopy(s['ref'][0])
                    root.kids = new_root.kids; root.kind = new_root.kind
                    chain = [root]
                    for ci in s['path'][0]: chain.append(chain[-1].kids[ci])
                    # marks: keep those that existed at the snapshot, re-bound to the restored nodes by position in the chain
                    old_chain = open_stack[:s['depth']]
                    remap = {id(o): nnode for o, nnode in zip(old_chain, chain)}
                    marks[:] = [dict(m2, owner=remap[id(m2['owner'])]) for m2 in marks[:s['nmarks']] if id(m2['owner']) in remap]
                    open_stack[:] = chain; del real_open[s['nreal']:]
                    ntok = s['ntok']
                    hist.append('restore')
                elif op == 9:
                    snaps.pop(); hist.append('drop-snapshot')
            # finish: close everything LIFO, then the root
            while len(open_stack) > 1:
                node = open_stack.pop(); ro = real_open.pop(); kind = rule_kinds[0]
                r.call(F['close'], [dref, ro['mo'], Agg('Rule', kind, [])]); node.kind = kind
                spill = []
                while node.kids and isinstance(node.kids[-1], tuple) and node.kids[-1][2]: spill.insert(0, node.kids.pop())
                open_stack[-1].kids.extend(spill)
            r.call(F['close_root'], [dref, m0, Agg('Rule', rule_kinds[1], [])]); root.kind = rule_kinds[1]
        except Panic as e: status, msg = 'panic', str(e)
        except PathAbort as e: status, msg = e.kind, e.msg
        work.extend(r.pending); npaths += 1; steps += r.steps; fns |= r.fn_used; mods |= r.models_used
        hist_lengths[len(hist)] = hist_lengths.get(len(hist), 0) + 1
        def witness():
            ok, m = solver.check()
            return dict(ops=[OPS[m.eval(v, model_completion=True).as_long()] for v in opv], args=[m.eval(v, model_completion=True).as_long() for v in argv], history=hist)
        if status != 'ok':
            viol.append(dict(kind='builder-' + status, detail=f'{status}: {msg} after history {hist}', witness=witness()))
        else:
            d = dcell[0]
            real = [run.node_plain(x, pp) for x in d.f[pp.CD['nodes']].items]
            exp = []; flatten(root, exp)
            exp = [(e[0], e[1], e[2] - 0) if e[0] == 'R' else e for e in exp]
            real_cmp = [('R', x[1], x[2]) if x[0] == 'R' else ('T', x[2]) for x in real]
            exp_cmp = [('R', e[1], e[2]) if e[0] == 'R' else ('T', e[1]) for e in exp]
            if real_cmp != exp_cmp:
                viol.append(dict(kind='builder-vs-reference', detail=f'node vector {real_cmp} differs from the reference tree layout {exp_cmp} after history {hist}', witness=witness()))
            else:
                # the children accessor must enumerate exactly the reference children
                try:
                    def walk(idx):
                        g = r.call(F['get'], [dref, Agg('NodeRef', None, [idx])])
                        if g.disc != pp.node_rule: return ('T', run.cst_index(g.f[1]))
                        it = [r.call(F['children'], [dref, Agg('NodeRef', None, [idx])])]; kids = []
                        while True:
                            o = r.call(f_next, [Ref(it, 0)])
                            if o.disc == 0: break
                            kids.append(walk(o.f[0].f[0]))
                        return ('R', g.f[0].disc, kids)
                    got = walk(0)
                    if got != ref_shape(root):
                        viol.append(dict(kind='children-vs-reference', detail=f'children() walk {got} differs from the reference tree {ref_shape(root)} after history {hist}', witness=witness()))
                except Panic as e:
                    viol.append(dict(kind='accessor-panic', detail=f'{e} after history {hist}', witness=witness()))
        if len(samples) < 5 and npaths % 97 == 1: samples.append(dict(history=list(hist)))
        if max_paths and npaths >= max_paths: break
    solver.reset_pc()
    return dict(paths=npaths, steps=steps, queries=solver.queries, solver_time=solver.time, viol=viol, samples=samples, fns=sorted(fns), models=sorted(mods),
                complete=not work, hist_lengths=hist_lengths)

def kani_codec(h):
    """Kani/CBMC proof of the 48-bit CstIndex codec of the freshly emitted skeleton (heap-free kernel)"""
    import shutil
    d = os.path.join(harness.WORK, 'kani-cst'); os.makedirs(os.path.join(d, 'src'), exist_ok=True)
    shutil.copy(os.path.join(h.dir, 'generated.rs'), os.path.join(d, 'src', 'generated.rs'))
    lib = open(os.path.join(h.dir, 'lib.rs')).read() + '''
#[cfg(kani)]
mod proofs {
    use super::*;
    #[kani::proof]
    fn cst_index_roundtrip() {
        let x: usize = kani::any();
        kani::assume(x < (1usize << 48));
        let i: CstIndex = x.into();
        assert!(usize::from(i) == x);
    }
    #[kani::proof]
    #[kani::should_panic]
    fn cst_index_rejects_what_does_not_fit() {
        let x: usize = kani::any();
        kani::assume(x >= (1usize << 48));
        let _i: CstIndex = x.into();
    }
}
'''
    open(os.path.join(d, 'src', 'lib.rs'), 'w').write(lib)
    open(os.path.join(d, 'Cargo.toml'), 'w').write('[package]\nname = "kani_cst"\nversion = "0.0.0"\nedition = "2024"\n[workspace]\n[lints.rust]\nunexpected_cfgs = { level = "allow", check-cfg = [\'cfg(kani)\'] }\n')
    t0 = time.time()
    r = harness.sh(['cargo', 'kani', '--lib', '--target-dir', os.path.join(harness.WORK, 'kani-cst-target')], cwd=d, timeout=900)
    out = r.stdout + r.stderr
    ok = 'Complete - 2 successfully verified harnesses, 0 failures, 2 total' in out
    return dict(ok=ok, wall_s=round(time.time() - t0, 2), harnesses=['proofs::cst_index_roundtrip (forall x < 2^48: usize::from(CstIndex::from(x)) == x)',
                                                                      'proofs::cst_index_rejects_what_does_not_fit (forall x >= 2^48: the debug assertion fires)'],
                tail=out[-1500:] if not ok else 'VERIFICATION:- SUCCESSFUL (2 harnesses)')
