"""Decision-replay exploration with z3 deciding every branch on symbolic data, and the driver for generated parsers."""
import re, time, json, os, hashlib, pickle, random
import z3
from .interp import *
from .models import MODELS
from .mir import Program, Unsupported

class Solver:
    """one incremental z3 solver; the path condition lives on its assertion stack"""
    def __init__(self):
        self.s = z3.Solver()
        self.queries = 0
        self.time = 0.0
        self.depth = 0
    def add_base(self, c): self.s.add(c)
    def push_pc(self, c):
        self.s.push(); self.s.add(c); self.depth += 1
    def reset_pc(self):
        while self.depth: self.s.pop(); self.depth -= 1
    def check(self, extra=()):
        self.queries += 1
        t = time.time()
        if extra:
            self.s.push()
            for c in extra: self.s.add(c)
        r = self.s.check()
        model = self.s.model() if r == z3.sat else None
        if extra: self.s.pop()
        self.time += time.time() - t
        if r == z3.unknown: raise Unsupported('solver unknown: ' + self.s.reason_unknown())
        return r == z3.sat, model

class Run(Machine):
    """one path: follows the recorded decision prefix, then asks the solver at every new symbolic branch"""
    def __init__(self, prog, types, solver, decisions, models=MODELS):
        super().__init__(prog, types, models)
        self.solver = solver
        self.decisions = list(decisions)
        self.dpos = 0
        self.pending = []
        self.pc = []
        self.model = None       # a model of the current pc (kept valid while we follow model-consistent branches)
        self.nd = 0
        self.nd_vars = []
        self.forks = 0

    def add_pc(self, c):
        self.pc.append(c); self.solver.push_pc(c)

    def choose(self, options):
        if self.dpos < len(self.decisions):
            i = self.decisions[self.dpos]; self.dpos += 1
            self.add_pc(options[i][0]); return options[i][1]
        # model-guided: the branch the current model takes is feasible without a query
        if self.model is None:
            ok, self.model = self.solver.check()
            if not ok: raise Unsupported('path condition unsatisfiable at a branch')
        taken = None
        for i, (c, p) in enumerate(options):
            if z3.is_true(self.model.eval(c, model_completion=True)): taken = i; break
        if taken is None: raise Unsupported('no option satisfied by the model (options not exhaustive)')
        prefix = self.decisions
        for i, (c, p) in enumerate(options):
            if i == taken: continue
            ok, _ = self.solver.check([c])
            if ok: self.pending.append(prefix + [i])
        if len(options) > 1: self.forks += 1
        self.decisions = prefix + [taken]; self.dpos += 1
        self.add_pc(options[taken][0])
        return options[taken][1]

    def choose_among(self, options):
        """like choose, but the options need not be exhaustive: the input is first constrained to their disjunction"""
        if self.dpos < len(self.decisions):
            return self.choose(options)
        dis = z3.Or(*[c for c, p in options]) if len(options) > 1 else options[0][0]
        ok, model = self.solver.check([dis])
        if not ok: raise Unsupported('no applicable option')
        self.model = model
        return self.choose(options)

    def fresh_bool(self, tag='nd'):
        v = z3.Bool(f'{tag}{self.nd}'); self.nd += 1; self.nd_vars.append(v)
        return Sym(v)

# ---------------------------------------------------------------- (de)serialisation of z3 terms produced by the engine
def ser(e):
    if z3.is_int_value(e): return e.as_long()
    if z3.is_true(e): return True
    if z3.is_false(e): return False
    if z3.is_const(e) and e.decl().kind() == z3.Z3_OP_UNINTERPRETED:
        return ('v', e.decl().name(), 'B' if z3.is_bool(e) else 'I')
    k = e.decl().kind()
    name = {z3.Z3_OP_AND: 'and', z3.Z3_OP_OR: 'or', z3.Z3_OP_NOT: 'not', z3.Z3_OP_EQ: 'eq', z3.Z3_OP_DISTINCT: 'distinct',
            z3.Z3_OP_LE: 'le', z3.Z3_OP_LT: 'lt', z3.Z3_OP_GE: 'ge', z3.Z3_OP_GT: 'gt', z3.Z3_OP_XOR: 'xor',
            z3.Z3_OP_ITE: 'ite', z3.Z3_OP_IMPLIES: 'implies', z3.Z3_OP_ADD: 'add', z3.Z3_OP_SUB: 'sub', z3.Z3_OP_UMINUS: 'neg'}.get(k)
    if name is None: raise Unsupported('serialise ' + str(e))
    return (name,) + tuple(ser(c) for c in e.children())

def deser(t, env=None):
    if isinstance(t, bool): return z3.BoolVal(t)
    if isinstance(t, int): return z3.IntVal(t)
    if t[0] == 'v':
        if env is not None and t[1] in env: return env[t[1]]
        return z3.Bool(t[1]) if t[2] == 'B' else z3.Int(t[1])
    a = [deser(x, env) for x in t[1:]]
    k = t[0]
    if k == 'and': return z3.And(*a)
    if k == 'or': return z3.Or(*a)
    if k == 'not': return z3.Not(a[0])
    if k == 'eq': return a[0] == a[1]
    if k == 'distinct': return z3.Distinct(*a)
    if k == 'le': return a[0] <= a[1]
    if k == 'lt': return a[0] < a[1]
    if k == 'ge': return a[0] >= a[1]
    if k == 'gt': return a[0] > a[1]
    if k == 'xor': return z3.Xor(a[0], a[1])
    if k == 'ite': return z3.If(a[0], a[1], a[2])
    if k == 'implies': return z3.Implies(a[0], a[1])
    if k == 'add': return sum(a[1:], a[0])
    if k == 'sub': return a[0] - a[1]
    if k == 'neg': return -a[0]
    raise ValueError(k)

def tokterm(v):
    """token kind stored in a node: concrete discriminant or the index of the input variable"""
    if v.__class__ is Sym:
        n = v.e.decl().name()
        if z3.is_const(v.e) and n[0] == 't' and n[1:].isdigit(): return ('t', int(n[1:]))
        return ('sym', ser(v.e))
    return v

# ---------------------------------------------------------------- generated-parser driver
ENGINE_VERSION = 7

class ParserProgram:
    """MIR + type tables of one harness crate"""
    def __init__(self, h):
        self.h = h
        self.prog = Program(h.mir_path, h.dir)
        self.types = Types()
        self.types.load([os.path.join(h.dir, 'lib.rs'), os.path.join(h.dir, 'generated.rs')])
        T = self.types
        self.NTOK = len(T.enums['Token'])
        assert T.enums['Token'] == h.tokens, (T.enums['Token'], h.tokens)
        self.P = {n: i for i, n in enumerate(T.structs['Parser'])}
        self.CD = {n: i for i, n in enumerate(T.structs['CstData'])}
        self.CST = {n: i for i, n in enumerate(T.structs['Cst'])}
        self.node_rule = T.enums['Node'].index('Rule')
        self.rule_names = T.enums['Rule']       # PascalCase as emitted
        self.PS = {n: i for i, n in enumerate(T.structs['ParserState'])}
        self.MT = {n: i for i, n in enumerate(T.structs['MarkTruncation'])}
        B = self.prog.byname
        self.f_new = B['Parser::new_with_context']
        self.f_children = B['Cst::children']; self.f_next = B['<CstChildren as Iterator>::next']
        self.f_get = B['Cst::get']; self.f_span = B['Cst::span']

def parser_agg(fr):
    v = fr.L[1]
    if v.__class__ is Ref: v = v.get()
    return v if (v.__class__ is Agg and v.ty == 'Parser') else None

class PathResult:
    __slots__ = ('entry', 'n', 'decisions', 'pc', 'status', 'msg', 'nodes', 'walk', 'walk_err', 'diags', 'log', 'states',
                 'steps', 'witness', 'script', 'nd', 'forks', 'cb', 'final')
    def asdict(self): return {k: getattr(self, k, None) for k in self.__slots__}

def run_path(pp, solver, tvars, entry, n, decisions, extra_pc=(), nd_shared=None, max_steps=None, observe=True):
    """execute one path of entry (parse / parse_<part>) on n symbolic tokens; returns (Run, PathResult)"""
    prog, T = pp.prog, pp.types
    r = Run(prog, T, solver, decisions)
    if max_steps: r.MAX_STEPS = max_steps
    solver.reset_pc()
    for c in extra_pc: r.add_pc(c)
    res = PathResult(); res.entry, res.n = entry, n
    log = []; states = []; cbinfo = []
    P, CD, CST = pp.P, pp.CD, pp.CST
    def nondet(m, a, raw):
        if nd_shared is not None:
            k = m.nd; m.nd += 1
            while len(nd_shared) <= k: nd_shared.append(z3.Bool(f'nd{len(nd_shared)}'))
            m.nd_vars.append(nd_shared[k]); return Sym(nd_shared[k])
        return m.fresh_bool()
    def log_ev(m, a, raw):
        e = a[0]; log.append(tuple(int(x) if isinstance(x, bool) else (tokterm(x) if x.__class__ is Sym else x) for x in e.f)); return UNIT
    r.intercepts['nondet_bool'] = nondet
    r.intercepts['log_ev'] = log_ev
    # C08: hard state at get_state / after set_state
    snaps = {}
    def snap(parser, diags):
        d = parser.f[P['cst']].f[CST['data']]
        en = parser.f[P['error_node']]
        return (parser.f[P['pos']], tokterm(parser.f[P['current']].disc), d.f[CD['token_count']], d.f[CD['non_skip_len']],
                [node_plain(x, pp) for x in d.f[CD['nodes']].items], len(diags.items), en.f[0].f[0] if en.disc == 1 else None)
    def post_get(m, fn, args, ret):
        parser = args[0].get(); diags = args[1]
        dv = diags.items if diags.__class__ is SliceRef else diags.get().items
        class _D: pass
        dd = _D(); dd.items = dv[:diags.hi] if diags.__class__ is SliceRef else dv
        snaps[id(ret)] = (ret, snap(parser, dd))
    def post_set(m, fn, args, ret):
        parser = args[0].get(); st = args[1].get(); diags = args[2].get()
        s0 = snaps.get(id(st))
        if s0 is not None:
            b, a = list(s0[1]), list(snap(parser, diags))
            # the placeholder of an error node that is still open is transient (it is overwritten when the node is closed)
            m = b[6]
            if m is not None and m < len(b[4]) and m < len(a[4]): b[4] = list(b[4]); a[4] = list(a[4]); b[4][m] = a[4][m] = 'open-error-node'
            states.append((tuple(b[:6]), tuple(a[:6])))
        if pending_del:
            lp, gone = pending_del.pop()
            dels = [(e[2], e[1]) for e in log[lp:] if e[0] == 2]
            for idx, rid in gone:
                if (idx, rid) not in dels:
                    final.append(('missing-delete', f'node {idx} ({pp.h.rule_names[rid]}) was announced by a create callback and discarded by backtracking without a delete callback (deletes seen: {dels})'))
    announced = []; pending_del = []; final = []
    def pre_set(m, fn, args):
        parser = args[0].get(); st = args[1].get()
        nc = st.f[pp.PS['truncation_mark']].f[pp.MT['node_count']]
        items = parser.f[P['cst']].f[CST['data']].f[CD['nodes']].items
        gone = []
        for idx in range(nc, len(items)):
            for o, rid in announced:
                if o is items[idx]: gone.append((idx, rid))
        pending_del.append((len(log), gone))
        announced[:] = [(o, rid) for o, rid in announced if not any(o is x for x in items[nc:])]
    r.hooks['Parser::set_state'] = pre_set
    def on_ev(m, fn, args):
        # create_node_* callback fires: the announced node must already head a closed, properly nested subtree
        if args[1] == 2:      # delete callback: the user has been told that this node is gone
            its = args[0].get().f[P['cst']].f[CST['data']].f[CD['nodes']].items
            if 0 <= args[3] < len(its): announced[:] = [(o, rid) for o, rid in announced if o is not its[args[3]]]
            return
        if args[1] != 1: return
        parser = args[0].get(); node = args[3]
        d = parser.f[P['cst']].f[CST['data']]
        its = d.f[CD['nodes']].items
        if 0 <= node < len(its): announced.append((its[node], args[2]))
        nodes = [node_plain(x, pp) for x in d.f[CD['nodes']].items]
        if not (0 <= node < len(nodes)) or nodes[node][0] != 'R':
            cbinfo.append(f'create callback for NodeRef({node}) which is not a rule node (vector length {len(nodes)})'); return
        end = node + nodes[node][2]
        if end >= len(nodes): cbinfo.append(f'create callback for NodeRef({node}): extent {end} outside vector of length {len(nodes)}'); return
        def chk(i, limit):
            e = i + nodes[i][2]
            if e > limit: return f'create callback for NodeRef({node}): descendant {i} extent {e} leaves its parent (limit {limit})'
            j = i + 1
            while j <= e:
                if nodes[j][0] == 'R':
                    mm = chk(j, e)
                    if mm: return mm
                    j += nodes[j][2] + 1
                else: j += 1
            return None
        mm = chk(node, end)
        if mm: cbinfo.append(mm)
    r.hooks['Parser::ev'] = on_ev
    r.post_hooks['Parser::get_state'] = post_get
    r.post_hooks['Parser::set_state'] = post_set
    # lasso detection at loop heads of emitted rule functions
    r.loop_seen = {}; grow = {}; r.cycle = None
    def loop_key(m, fr, bb):
        k = fr.fn.key
        if not (k.startswith('Parser::rule_') or k.endswith('::rec') or k == 'rec'): return None
        p = parser_agg(fr)
        if p is None: return None
        d = p.f[P['cst']].f[CST['data']]
        # the number of environment answers (predicates, assertions) consumed so far is NOT part of the state: a loop that
        # only asks the environment again and again without progress does not terminate for the answers that repeat
        base = (k, bb, len(m.stack), p.f[P['pos']], p.f[P['error_since_advance']], p.f[P['error_node']].disc, p.f[P['in_ordered_choice']])
        items = d.f[CD['nodes']].items
        # a loop that keeps its token position and control state while the tree only grows (a node opened and closed per
        # iteration) never repeats a full state; three visits with a strictly growing node vector are reported as
        # non-termination as well (the native run under a timeout has the last word)
        g = grow.get(base)
        if g is None or len(items) <= g[0]: grow[base] = (len(items), 1, m.nd)
        else:
            grow[base] = (len(items), g[1] + 1, m.nd)
            if g[1] + 1 >= 4:
                m.cycle = (g[2], m.nd)
                raise PathAbort('lasso', f'{k} bb{bb}: token position and control state repeat while the tree keeps growing')
        return base + (tuple(node_plain(x, pp)[1:] for x in items), d.f[CD['non_skip_len']],
                       tuple((i, v) for i, v in enumerate(fr.L) if v.__class__ in (int, bool)))      # e.g. which alternative of an ordered choice is being attempted
    r.loop_key = loop_key
    toks = VecObj([Agg('Token', Sym(t), []) for t in tvars[:n]])
    spans = VecObj([Agg('Range', None, [i, i + 1]) for i in range(n)])
    ctx = Agg('Ctx', None, [toks, spans])
    diags = VecObj(); cell = [diags]
    cst = None
    try:
        parser = r.call(pp.f_new, ['x' * n, Ref(cell, 0), ctx])
        f_entry = prog.byname['Parser::' + entry]
        cst = r.call(f_entry, [parser, Ref(cell, 0)])
        res.status = 'ok'; res.msg = ''
    except Panic as e:
        res.status = 'panic'; res.msg = str(e)
    except PathAbort as e:
        res.status = e.kind; res.msg = e.msg
    finally:
        r.loop_key = None
    res.steps = r.steps
    res.decisions = list(r.decisions); res.forks = r.forks
    res.diags = [(d.f[0].f[0], d.f[0].f[1], d.f[1], int(d.f[2]), d.f[3]) for d in diags.items]
    if res.status == 'ok' and cst is not None:
        # every node announced by a create callback and not discarded by backtracking is still that node object in the
        # returned tree: re-closing an announced node (e.g. as another kind) silently invalidates what the user was told
        items = cst.f[CST['data']].f[CD['nodes']].items
        for o, rid in announced:
            if not any(o is x for x in items):
                final.append(('announced-node-overwritten', f'a node announced by create_node_{pp.h.rule_names[rid]} was overwritten afterwards without a delete callback (create events: {[(e[1], e[2]) for e in log if e[0] == 1]})'))
                break
    res.log = log; res.states = states; res.cb = cbinfo; res.final = final
    res.nodes = None; res.walk = None; res.walk_err = None
    if cst is not None:
        data = cst.f[CST['data']]
        res.nodes = [node_plain(x, pp) for x in data.f[CD['nodes']].items]
        if observe:
            r.stack = []
            try:
                res.walk = walk_tree(r, pp, cst)
            except Panic as e:
                res.walk_err = 'panic: ' + str(e)
            except PathAbort as e:
                res.walk_err = e.kind + ': ' + e.msg
    res.pc = [ser(c) for c in r.pc[len(extra_pc):]]
    res.nd = r.nd
    return r, res

def node_plain(x, pp):
    if x.disc == pp.node_rule:
        return ('R', x.f[0].disc, cst_index(x.f[1]))
    return ('T', tokterm(x.f[0].disc), cst_index(x.f[1]))

def cst_index(ci):
    a = ci.f[0]
    if a.__class__ is Agg: return sum(b << (8 * i) for i, b in enumerate(a.f))
    return a

def walk_tree(r, pp, cst):
    """depth-first walk through the REAL Cst::children / CstChildren::next / Cst::get / Cst::span (interpreted)"""
    cref = Ref([cst], 0)
    budget = [4000]
    def rec(nr):
        budget[0] -= 1
        if budget[0] < 0: raise PathAbort('budget', 'tree walk does not terminate')
        g = r.call(pp.f_get, [cref, copyval(nr)])
        sp = r.call(pp.f_span, [cref, copyval(nr)])
        if g.disc == pp.node_rule:
            it = [r.call(pp.f_children, [cref, copyval(nr)])]; kids = []
            while True:
                o = r.call(pp.f_next, [Ref(it, 0)])
                if o.disc == 0: break
                kids.append(rec(o.f[0]))
            return ('R', g.f[0].disc, sp.f[0], sp.f[1], kids, nr.f[0])
        return ('T', tokterm(g.f[0].disc), sp.f[0], sp.f[1], cst_index(g.f[1]), nr.f[0])
    return rec(Agg('NodeRef', None, [0]))

def explore(pp, entry, n, extra_pc_fn=None, on_path=None, max_paths=None, first_tok=None, seed_decisions=None):
    """all paths of `entry` over n symbolic tokens. returns (list of PathResult, stats)"""
    h = pp.h
    solver = Solver()
    tvars = [z3.Int(f't{i}') for i in range(n)]
    lo = h.first_tok if first_tok is None else first_tok
    for t in tvars: solver.add_base(z3.And(t >= lo, t < pp.NTOK))
    extra = extra_pc_fn(tvars) if extra_pc_fn else ()
    work = [list(d) for d in (seed_decisions or [[]])]
    out = []; steps = 0; fn_used = set(); models_used = set()
    t0 = time.time()
    if extra:
        ok, _ = solver.check(list(extra))
        if not ok: work = []          # the input constraint has no solution of this length: nothing to explore
    while work:
        dec = work.pop()
        r, res = run_path(pp, solver, tvars, entry, n, dec, extra_pc=extra)
        work.extend(r.pending)
        steps += r.steps; fn_used |= r.fn_used; models_used |= r.models_used
        ok, model = solver.check()
        if not ok: raise Unsupported('final path condition unsat')
        res.witness = [model.eval(t, model_completion=True).as_long() for t in tvars]
        res.script = ''.join('1' if z3.is_true(model.eval(v, model_completion=True)) else '0' for v in r.nd_vars)
        if res.status == 'lasso' and getattr(r, 'cycle', None) and r.cycle[1] > r.cycle[0]:
            a, b = r.cycle      # the answers of one round of the cycle are repeated forever: prefix(cycle)
            res.script = res.script[:a] + '(' + res.script[a:b] + ')'
        if on_path: on_path(r, res, solver, tvars)
        out.append(res)
        if max_paths and len(out) >= max_paths: break
    solver.reset_pc()
    stats = dict(paths=len(out), steps=steps, queries=solver.queries, solver_time=solver.time, wall=time.time() - t0,
                 fns=sorted(fn_used), models=sorted(models_used), complete=not work)
    return out, stats

# ---------------------------------------------------------------- native cross-validation (translator validation)
def concretise(x, witness):
    if isinstance(x, tuple) and len(x) == 2 and x[0] == 't': return witness[x[1]]
    return x

def walk_plain(w, witness):
    if w[0] == 'R': return ['R', w[1], w[2], w[3], [walk_plain(k, witness) for k in w[4]]]
    return ['T', concretise(w[1], witness), w[2], w[3]]

def compare_native(h, res, nat):
    """returns None if the native run equals the interpreter's path result, else a description"""
    w = res.witness
    if res.status == 'panic':
        return None if nat.get('panic') else f'engine panic ({res.msg}) but native returned'
    if res.status in ('lasso', 'recursion', 'budget'):
        return None if (nat.get('timeout') or nat.get('crash')) else f'engine {res.status} but native returned'
    if nat.get('panic') or nat.get('timeout') or nat.get('crash'): return f'native {nat} but engine returned'
    nodes = [[k, concretise(a, w), b] for k, a, b in res.nodes]
    if nodes != nat['nodes']: return f'nodes differ: {nodes} vs {nat["nodes"]}'
    if [list(d) for d in res.diags] != nat['diags']: return f'diags differ: {res.diags} vs {nat["diags"]}'
    elog = [[concretise(x, w) for x in (e[0], e[1], e[2], e[3], e[4], e[5], -1 if e[6] == 9999999 else (-2 if e[6] == 9999998 else e[6]), e[7])] for e in res.log]
    if elog != nat['log']: return f'log differs: {elog} vs {nat["log"]}'
    if res.walk_err is not None:
        return None if nat['walk'] == 'PANIC' else f'engine walk error ({res.walk_err}) but native walk ok'
    if nat['walk'] == 'PANIC': return 'native walk panics but engine walk ok'
    if walk_plain(res.walk, w) != nat['walk']: return f'walk differs'
    return None

def validate_native(h, results, sample=None, seed=0):
    """run witnesses natively and compare; returns (validated_count, [mismatch descriptions])"""
    from . import harness
    rs = list(results)
    if sample is not None and len(rs) > sample:
        rnd = random.Random(seed); rs = rnd.sample(rs, sample)
    normal = [r for r in rs if r.status in ('ok', 'panic')]
    odd = [r for r in rs if r.status not in ('ok', 'panic')]
    mism = []; cnt = 0
    if normal:
        cases = [(r.entry, [h.tokens[k] for k in r.witness], r.script) for r in normal]
        nat = harness.run_native(h, cases, timeout=120)
        if nat and all(o.get('timeout') for o in nat):
            # the whole batch timed out: a loaded machine, not a verdict about any path; retry once with a generous limit
            nat = harness.run_native(h, cases, timeout=900)
            if nat and all(o.get('timeout') for o in nat):
                # still nothing: some input makes the native parser hang; find it by running the cases one by one
                nat = [harness.run_native(h, [c], timeout=20)[0] for c in cases[:80]]
                normal = normal[:80]
        for r, o in zip(normal, nat):
            d = compare_native(h, r, o); cnt += 1
            if d: mism.append((r, d))
    for r in odd[:3]:          # non-returning paths cost a native timeout each: a few representatives
        o = harness.run_native(h, [(r.entry, [h.tokens[k] for k in r.witness], r.script)], timeout=5)[0]
        d = compare_native(h, r, o); cnt += 1
        if d: mism.append((r, d))
    return cnt, mism
