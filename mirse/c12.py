"""C12 (partial): the grammar front end never panics and reports valid spans.
 (A) parser stage: MIRSE on the lelwel crate's own MIR, all sequences of up to N lexical items (all 32 kinds incl.
     comments, Whitespace, Error), tokenize intercepted; per path: returns, lossless tree, diagnostic spans on token
     boundaries inside the text; witnesses that the real lexer can produce are replayed natively through tokenize +
     Parser + SemanticPass.
 (B) string-escape diagnostics: MIRSE on frontend::lexer::check_string over strings of symbolic characters (code points
     as solver integers, UTF-8 byte offsets as sums of encoded lengths), constrained to the shape parse_string guarantees.
Outside: the logos lexer itself and SemanticPass::run (see DESIGN.md)."""
import os, sys, time, json, subprocess, shutil, random, traceback
from concurrent.futures import ProcessPoolExecutor, as_completed
import z3
from . import harness, run, frontend, props
from .interp import *
from .mir import Unsupported

def build_fe_native():
    src = os.path.join(os.path.dirname(__file__), 'fe_native')
    dst = os.path.join(harness.WORK, 'fe-native'); os.makedirs(os.path.join(dst, 'src'), exist_ok=True)
    shutil.copy(os.path.join(src, 'Cargo.toml'), dst)
    txt = open(os.path.join(src, 'Cargo.toml')).read().replace('path = "/repo"', f'path = "{harness.REPO}"')
    open(os.path.join(dst, 'Cargo.toml'), 'w').write(txt)
    shutil.copy(os.path.join(src, 'src', 'main.rs'), os.path.join(dst, 'src'))
    shutil.copy(os.path.join(harness.REPO, 'Cargo.lock'), dst)
    td = os.path.join(harness.WORK, 'fe-native-target'); os.makedirs(td, exist_ok=True)
    import fcntl
    with open(os.path.join(harness.WORK, 'fe-native-build.lock'), 'w') as lf:
        fcntl.flock(lf, fcntl.LOCK_EX)
        dg = harness.refresh_target(td, crates=('lelwel', 'fe_native'))     # see harness.refresh_target: never trust mtimes
        r = harness.sh(['cargo', 'build', '--offline', '--target-dir', td], cwd=dst, timeout=1200)
        if r.returncode != 0: raise Unsupported('cannot build the native front-end replay crate: ' + r.stderr[-1500:])
        harness.stamp_target(td, dg)
        # private copy named after the source tree, so that a build for another checkout cannot swap it under a running check
        out = os.path.join(harness.WORK, 'bin', 'fe_native-' + dg[:16]); os.makedirs(os.path.dirname(out), exist_ok=True)
        shutil.copy2(os.path.join(td, 'debug', 'fe_native'), out + '.tmp%d' % os.getpid()); os.replace(out + '.tmp%d' % os.getpid(), out)
    return out

def fe_native_run(exe, lines):
    r = subprocess.run([exe], input='\n'.join(lines) + '\n', capture_output=True, text=True, timeout=300)
    out = [json.loads(l) for l in r.stdout.split('\n') if l.strip()]
    while len(out) < len(lines): out.append({'crash': True})
    return out

_FP = {}
def get_fp(mir_path):
    fp = _FP.get(mir_path)
    if fp is None:
        fp = frontend.FrontProgram.__new__(frontend.FrontProgram)
        fp.mir_path = mir_path
        frontend.FrontProgram.load(fp)
        _FP[mir_path] = fp
    return fp

def eval_front(fp, res):
    """-> list of (kind, detail)"""
    n = res.n; out = []
    if res.status != 'ok': return [('front-end-' + res.status, f'parser stage does not return: {res.status} {res.msg}')]
    if res.walk_err: return [('accessor-panic', res.walk_err)]
    lv = props.leaves(res.walk, [])
    if [(l[1], l[2], l[3]) for l in lv] != [(('t', i), i, i + 1) for i in range(n)]:
        out.append(('not-lossless', f'leaf walk {[(l[1], l[2], l[3]) for l in lv]}'))
    for sev, msg, sp in res.diags:
        if sp is None: out.append(('diag-span', f'diagnostic {msg!r} without a span'))
        elif isinstance(sp[0], int) and isinstance(sp[1], int) and not (0 <= sp[0] <= sp[1] <= n): out.append(('diag-span', f'diagnostic span {sp} outside the text 0..{n}'))
    return out

# kinds whose lexeme may contain multi-byte characters (lexer.rs: comment and string bodies, invalid characters); every other
# kind is matched by an ASCII-only pattern, so any offset inside such a token is a character boundary
MB_KINDS = ('Error', 'BlockComment', 'Str', 'LineComment', 'DocComment')

def span_oracle(fp):
    """token boundaries are solver variables b_0=0 < b_1 < .. < b_n; a diagnostic end point that is not literally one of them is
    handed to the solver:  PC /\ (x < 0 \/ x > b_n \/ lo > hi \/ exists i. b_i < x < b_{i+1} /\ kind_i may hold multi-byte text)"""
    mb = [fp.tokens.index(k) for k in MB_KINDS]
    def on_path(r, res, solver, tvars):
        bv = res.bvars; n = res.n
        def term(x): return bv[x] if isinstance(x, int) else (run.deser(x[1]) if not isinstance(x[1], int) else z3.IntVal(x[1]))
        for sev, msg, sp in res.diags:
            if sp is None or (isinstance(sp[0], int) and isinstance(sp[1], int) and 0 <= sp[0] <= sp[1] <= n): continue
            lo, hi = term(sp[0]), term(sp[1])
            found = None
            for pref in mb + [None]:
                inside = []
                for x in (lo, hi):
                    for i in range(n):
                        kind_ok = (tvars[i] == pref) if pref is not None else z3.Or(*[tvars[i] == k for k in mb])
                        inside.append(z3.And(bv[i] < x, x < bv[i + 1], kind_ok))
                bad = z3.Or(lo < 0, hi > bv[n], lo > hi, *inside) if pref is None else z3.Or(*inside)
                ok, model = solver.check([bad])
                if ok: found = model; break
            if found is None: continue
            ev = lambda e: found.eval(e, model_completion=True).as_long()
            res.span_viol.append(dict(witness=[ev(t) for t in tvars], bounds=[ev(b) for b in bv], lo=ev(lo), hi=ev(hi), msg=msg,
                                      term=f'{z3.simplify(lo)}..{z3.simplify(hi)}'))
    return on_path

def mb_texts(kinds, bounds, lo, hi):
    """texts for a span counterexample: canonical lexemes, with the token(s) the end points fall into replaced by lexemes of
    multi-byte characters (several variants; the solver's token LENGTHS cannot be honoured for fixed-spelling kinds)"""
    n = len(kinds); hit = [i for i in range(n) if any(bounds[i] < x < bounds[i + 1] for x in (lo, hi))]
    var = {'Error': ['\u00e9', '\u20ac', '\U0001F600'], 'Str': ["'\u00e9'", "'\u20ac\u20ac'"], 'LineComment': ['//\u00e9\n', '//\u00e9\u00e9\n'],
           'DocComment': ['///\u00e9\n', '///\u20ac\u00e9\n'], 'BlockComment': ['/*\u00e9*/', '/*\u20ac\u20ac*/']}
    out = []
    for v in range(3):
        t = []
        for i, k in enumerate(kinds):
            if i in hit and k in var:
                alts = list(var[k])
                if k == 'BlockComment' and i == n - 1: alts = ['/*\u00e9', '/*\u20ac'] + alts
                t.append(alts[v % len(alts)])
            else: t.append(LEX[k])
        out.append(''.join(t))
    return out

LEX = {"LineComment": "//c\n", "BlockComment": "/*c*/", "DocComment": "///d\n", "Whitespace": " ", "Token": "token", "Start": "start", "Right": "right",
       "Skip": "skip", "Part": "part", "Colon": ":", "Semi": ";", "Equal": "=", "LPar": "(", "RPar": ")", "LBrak": "[", "RBrak": "]", "Or": "|", "Star": "*",
       "Plus": "+", "Hat": "^", "Tilde": "~", "And": "&", "Slash": "/", "Id": "a", "Str": "'s'", "Predicate": "?1", "Action": "#1", "Assertion": "!1",
       "NodeRename": "@r", "NodeMarker": "<1", "NodeCreation": "1>n", "Error": "$"}

def span_violation(fp, sv, n):
    kinds = [fp.tokens[k] for k in sv['witness']]
    return dict(kind='diag-span', n=n, witness=sv['witness'], span_cex=sv,
                detail=f"diagnostic {sv['msg']!r} has span {sv['term']} (b_i = byte offset of token i): for tokens {kinds} at offsets {sv['bounds']} that is "
                       f"{sv['lo']}..{sv['hi']}, outside the text or inside a token that can hold multi-byte characters")

def shard_job(args):
    mir_path, n, prefix, validate = args
    t0 = time.time()
    out = dict(n=n, paths=0, steps=0, queries=0, solver_time=0.0, viol=[], fns=set(), models=set(), inconclusive=[], witnesses=[], forks=0)
    try:
        fp = get_fp(mir_path)
        results, st = frontend.explore_front(fp, n, seed_decisions=[prefix], symspans=True, on_path=span_oracle(fp))
        out['paths'] = len(results); out['steps'] = st['steps']; out['queries'] = st['queries']; out['solver_time'] = st['solver_time']
        out['fns'] = set(st['fns']); out['models'] = set(st['models']); out['forks'] = sum(r.forks for r in results)
        if not st['complete']: out['inconclusive'].append(f'n={n} prefix {prefix}: incomplete')
        rnd = random.Random(hash((n, tuple(prefix))) & 0xffff)
        for r in results:
            for kind, detail in eval_front(fp, r):
                out['viol'].append(dict(kind=kind, detail=detail, witness=r.witness, n=n))
            for sv in r.span_viol:
                if sum(1 for v in out['viol'] if 'span_cex' in v) < 3: out['viol'].append(span_violation(fp, sv, n))
            if rnd.random() < validate:
                out['witnesses'].append(dict(witness=r.witness, walk=r.walk, diags=r.diags, status=r.status))
    except Unsupported as e: out['inconclusive'].append(f'n={n}: {e}')
    except Exception as e: out['inconclusive'].append(f'n={n}: internal error {e!r} {traceback.format_exc()[-500:]}')
    out['fns'] = sorted(out['fns']); out['models'] = sorted(out['models']); out['wall'] = time.time() - t0
    return out

def engine_walk_named(fp, w, spans):
    """engine walk (token-index spans) -> native form with byte spans"""
    def sp(lo, hi):
        if lo == hi: return (spans[lo][0] if lo < len(spans) else (spans[-1][1] if spans else 0),) * 2 if lo < len(spans) else ((spans[-1][1] if spans else 0),) * 2
        return (spans[lo][0], spans[hi - 1][1])
    if w[0] == 'T': return ['T', None, spans[w[4]][0], spans[w[4]][1]]
    kids = [engine_walk_named(fp, k, spans) for k in w[4]]
    return ['R', fp.rule_names[w[1]], None, None, kids]

def compare_front_native(fp, wit, nat):
    """structure (rule names, token order) and diagnostic spans of the engine's path vs the native run of a lexable witness"""
    if nat.get('panic') or nat.get('crash'): return 'native front end panics' if wit['status'] == 'ok' else None
    if wit['status'] != 'ok': return f"engine {wit['status']} but native returned"
    spans = nat['spans']
    def shape_e(w):
        if w[0] == 'T': return ('T', w[4])
        return ('R', fp.rule_names[w[1]].lower(), [shape_e(k) for k in w[4]])
    idx = {tuple(s): i for i, s in enumerate(spans)}
    def shape_n(w):
        if w[0] == 'T': return ('T', idx[(w[2], w[3])])
        return ('R', w[1].replace('_', '').lower(), [shape_n(k) for k in w[4]])
    if shape_e(wit['walk']) != shape_n(nat['walk']): return f"tree differs: {shape_e(wit['walk'])} vs {shape_n(nat['walk'])}"
    n = len(spans)
    ed = []
    bnd = [s[0] for s in spans] + [nat['len']]
    env = {f'b{i}': z3.IntVal(b) for i, b in enumerate(bnd)}
    def val(x):     # boundary index, or a serialised term over the boundary variables evaluated at the native token offsets
        if isinstance(x, int): return bnd[x]
        if isinstance(x[1], int): return x[1]
        return z3.simplify(run.deser(x[1], env)).as_long()
    for sev, msg, sp in wit['diags']:
        ed.append([val(sp[0]), val(sp[1])])
    if ed != nat['diags']: return f"parser diagnostics differ: {ed} vs {nat['diags']}"
    return None

# ---------------------------------------------------------------- (B) check_string over symbolic characters
def string_shape(chars):
    """the shape parse_string guarantees for a Str token, as a constraint over the code points"""
    n = len(chars); cs = []
    for c in chars: cs.append(z3.And(c >= 0, c <= 0x10FFFF, z3.Or(c < 0xD800, c > 0xDFFF)))
    cs.append(chars[0] == 39)
    esc = z3.BoolVal(False)
    for k in range(1, n):
        c = chars[k]
        quote = z3.And(z3.Not(esc), c == 39)
        if k < n - 1:
            cs.append(z3.Not(quote)); cs.append(z3.Not(z3.And(z3.Not(esc), c == 10)))
        else:
            cs.append(quote)
        esc = z3.And(z3.Not(esc), c == 92)
    return cs

def check_string_job(args):
    mir_path, n = args
    out = dict(n=n, paths=0, steps=0, queries=0, solver_time=0.0, viol=[], inconclusive=[], fns=set(), models=set(), diag_paths=0)
    try:
        fp = get_fp(mir_path)
        f = fp.prog.lookup_suffix('check_string') or fp.prog.byname.get('check_string')
        if f is None: raise Unsupported('frontend::lexer::check_string not found in the MIR dump')
        solver = run.Solver()
        chars = [z3.Int(f'c{i}') for i in range(n)]
        S = z3.Int('S')
        base = string_shape(chars) + [S >= 0, S <= 1 << 40]
        for c in base: solver.add_base(c)
        ok, _ = solver.check()
        if not ok: return out
        work = [[]]
        total = SymStr(chars).offset(n)
        bounds = [SymStr(chars).offset(k) for k in range(n + 1)]
        while work:
            dec = work.pop()
            r = run.Run(fp.prog, fp.types, solver, dec, models=frontend.FRONT_MODELS)
            solver.reset_pc()
            diags = VecObj(); cell = [diags]
            span = Agg('Range', None, [Sym(S), Sym(S + total)])
            status = 'ok'; msg = ''
            try: r.call(f, [SymStr([c for c in chars]), Ref([span], 0), Ref(cell, 0)])
            except Panic as e: status, msg = 'panic', str(e)
            except PathAbort as e: status, msg = e.kind, e.msg
            work.extend(r.pending)
            out['paths'] += 1; out['steps'] += r.steps; out['fns'] |= r.fn_used; out['models'] |= r.models_used
            def model_text():
                okm, m = solver.check()
                return ''.join(chr(m.eval(c, model_completion=True).as_long()) for c in chars)
            if status != 'ok':
                out['viol'].append(dict(kind='check-string-' + status, detail=msg, text=model_text())); continue
            if diags.items: out['diag_paths'] += 1
            # functional oracle (reported under C13): an invalid-escape diagnostic is raised exactly for every backslash that is
            # not itself escaped and is followed by something other than a quote or a backslash
            esc = z3.BoolVal(False); inval = []
            for k in range(1, n - 1):
                isb = z3.And(z3.Not(esc), chars[k] == 92)
                inval.append(z3.And(isb, chars[k + 1] != 39, chars[k + 1] != 92))
                esc = isb
            exp_count = z3.Sum([z3.If(c, 1, 0) for c in inval]) if inval else z3.IntVal(0)
            okc, mc = solver.check([exp_count != len(diags.items)])
            if okc:
                text = ''.join(chr(mc.eval(c, model_completion=True).as_long()) for c in chars)
                out['viol'].append(dict(kind='string-escape-diagnostics', text=text,
                                        detail=f'{len(diags.items)} invalid-escape diagnostic(s) for the symbol {text!r}, which contains {mc.eval(exp_count)} invalid escape sequence(s)'))
            for d in diags.items:
                sp = d.f[2].f[1]
                lo, hi = [x.e if x.__class__ is Sym else z3.IntVal(x) for x in (sp.f[0], sp.f[1])]
                good = z3.And(S <= lo, lo <= hi, hi <= S + total,
                              z3.Or(*[lo - S == b for b in bounds]), z3.Or(*[hi - S == b for b in bounds]))
                okv, m = solver.check([z3.Not(good)])
                if okv:
                    text = ''.join(chr(m.eval(c, model_completion=True).as_long()) for c in chars)
                    out['viol'].append(dict(kind='string-escape-span', text=text,
                                            detail=f'invalid-escape diagnostic span {m.eval(lo - S)}..{m.eval(hi - S)} (relative to the literal) is outside the literal or inside a multi-byte character'))
        solver.reset_pc()
        out['queries'] = solver.queries; out['solver_time'] = solver.time
    except Unsupported as e: out['inconclusive'].append(f'check_string n={n}: {e}')
    except Exception as e: out['inconclusive'].append(f'check_string n={n}: internal error {e!r} {traceback.format_exc()[-600:]}')
    out['fns'] = sorted(out['fns']); out['models'] = sorted(out['models'])
    return out

VIABLE_MAX = [5]      # suffixes up to this length: every viable prefix; longer ones: sentences only
PRELUDE = ['Token', 'Whitespace', 'Id', 'Semi', 'Start', 'Whitespace', 'Id', 'Semi', 'Id', 'Colon', 'Id', 'Semi']      # token A;start s;s:A;

NAMINGS = {'token': 'A', 'self': 'h', 'start': 's', 'undefined': 'u'}

def smoke_text(kinds, naming='token'):
    """grammar text for a token-kind sequence: the prelude is `token A; start s; s: A;`, new rules are called h; references go to
    the token A, to the new rule itself (self reference), to the start rule, or to an undefined name, depending on `naming`"""
    ref = NAMINGS[naming]
    lex = {'LineComment': '//c\n', 'BlockComment': '/*c*/', 'DocComment': '///d\n', 'Whitespace': ' ', 'Token': 'token', 'Start': 'start', 'Right': 'right',
           'Skip': 'skip', 'Part': 'part', 'Colon': ':', 'Semi': ';', 'Equal': '=', 'LPar': '(', 'RPar': ')', 'LBrak': '[', 'RBrak': ']', 'Or': '|', 'Star': '*',
           'Plus': '+', 'Hat': '^', 'Tilde': '~', 'And': '&', 'Slash': '/', 'Str': "'x'", 'Predicate': '?1', 'Action': '#1', 'Assertion': '!1', 'NodeRename': '@r',
           'NodeMarker': '<1', 'NodeCreation': '1>n', 'Error': '$'}
    pre_ids = ['A', 's', 's', 'A']; out = []; ids = 0; n0 = len(PRELUDE); decl_start = True
    for i, k in enumerate(kinds):
        if k == 'Id':
            if i < n0: t = pre_ids[ids]; ids += 1
            else:
                nxt = kinds[i + 1] if i + 1 < len(kinds) else None; nxt2 = kinds[i + 2] if i + 2 < len(kinds) else None
                t = 'h' if decl_start and (nxt == 'Colon' or (nxt == 'Hat' and nxt2 == 'Colon')) else ('B' if i > 0 and kinds[i - 1] in ('Token',) else ref)
        else: t = lex[k]
        if out and (out[-1][-1:].isalnum() or out[-1][-1:] in "_>") and (t[:1].isalnum() or t[:1] == '_'): out.append(' ')
        out.append(t)
        decl_start = (k == 'Semi')
    return ''.join(out) + '\n'

def sema_smoke_job(args):
    """grammar files = a fixed valid prelude + every declaration suffix of k tokens that is a viable prefix of the grammar
    language (the suffix is symbolic, the solver prunes non-sentences); returns one witness per parser path.  The witnesses are
    then run through the REAL tokenize + Parser + SemanticPass natively (sema itself is not executed symbolically)."""
    mir_path, k = args[:2]; prefix = args[2] if len(args) > 2 else None; first_layer = args[3] if len(args) > 3 else False
    if len(args) > 4: VIABLE_MAX[0] = args[4]
    out = dict(k=k, paths=0, steps=0, queries=0, solver_time=0.0, witnesses=[], inconclusive=[], fns=set(), models=set(), smoke=True, pending=[])
    try:
        from . import c13
        from .oracle import Oracle
        fp = get_fp(mir_path)
        G = c13.reference_grammar(); tokidx = {tk: i for i, tk in enumerate(fp.tokens)}
        n0 = len(PRELUDE); n = n0 + k
        triv = [tokidx[x] for x in c13.TRIVIA] + [tokidx['Error']]
        def constraint(tv):
            cs = [tv[i] == tokidx[PRELUDE[i]] for i in range(n0)]
            cs += [z3.And(*[tv[n0 + j] != x for x in triv]) for j in range(k)]
            # the suffix is a viable prefix of the grammar language: complete declarations (every sentence is one) and texts that
            # stop in the middle of a construct - sema also runs on the trees of syntactically broken files
            o_ = Oracle(G.rules_dict(), 'file', tv[n0:], tokidx)
            cs.append(o_.viable(k) if k <= VIABLE_MAX[0] else o_.member())
            return cs
        if first_layer:      # breadth-first start: the pending decision prefixes are handed to other workers
            results, st = frontend.explore_front(fp, n, extra_pc_fn=constraint, max_paths=24, bfs=True)
            out['pending'] = [(mir_path, k, p, False, VIABLE_MAX[0]) for p in st['pending']]
        else:
            results, st = frontend.explore_front(fp, n, extra_pc_fn=constraint, seed_decisions=[prefix] if prefix is not None else None)
        out['paths'] = len(results); out['steps'] = st['steps']; out['queries'] = st['queries']; out['solver_time'] = st['solver_time']
        out['fns'] = set(st['fns']); out['models'] = set(st['models'])
        for r in results: out['witnesses'].append(r.witness)
    except Unsupported as e: out['inconclusive'].append(f'sema smoke k={k}: {e}')
    except Exception as e: out['inconclusive'].append(f'sema smoke k={k}: internal error {e!r} {traceback.format_exc()[-400:]}')
    out['fns'] = sorted(out['fns']); out['models'] = sorted(out['models'])
    return out

def main(t, sd):
    t0 = time.time()
    N = {'quick': 4, 'thorough': 5}[t]; NS = {'quick': 6, 'thorough': 8}[t]; KS = {'quick': 6, 'thorough': 7}[t]; VIABLE_MAX[0] = {'quick': 5, 'thorough': 6}[t]
    exe = build_fe_native()
    fp0 = frontend.FrontProgram()
    mir = fp0.mir_path
    workers = int(os.environ.get('VERIF_JOBS', '16'))
    # shard: explore a first layer in the parent, hand the pending decision prefixes to workers
    tasks = []; first = []
    for n in range(N + 1):
        results, st = frontend.explore_front(fp0, n, max_paths=60 if n >= 3 else None, bfs=True, symspans=True, on_path=span_oracle(fp0))
        first.append((n, results, st))
        for p in st['pending']: tasks.append((mir, n, p, 0.06 if n >= 4 else 0.5))
    res = []; sres = []; smoke = []
    with ProcessPoolExecutor(workers) as ex:
        futs = [ex.submit(shard_job, a) for a in tasks] + [ex.submit(check_string_job, (mir, k)) for k in range(2, NS + 1)] + [ex.submit(sema_smoke_job, (mir, k, None, k >= 4, VIABLE_MAX[0])) for k in range(1, KS + 1)]
        pend = set(futs)
        while pend:
            from concurrent.futures import wait, FIRST_COMPLETED
            done, pend = wait(pend, return_when=FIRST_COMPLETED)
            for f in done:
                r = f.result()
                (smoke if r.get('smoke') else (sres if 'diag_paths' in r else res)).append(r)
                for a in r.get('pending', []): pend.add(ex.submit(sema_smoke_job, a))
    viol = []; inconc = []; paths = 0; steps = 0; queries = 0; stime = 0.0; fns = set(); mods = set(); wits = []; forks = 0
    for n, results, st in first:
        paths += len(results); steps += st['steps']; queries += st['queries']; stime += st['solver_time']; fns |= set(st['fns']); mods |= set(st['models'])
        forks += sum(r.forks for r in results)
        for r in results:
            for kind, detail in eval_front(fp0, r): viol.append(dict(kind=kind, detail=detail, witness=r.witness, n=n))
            for sv in r.span_viol: viol.append(span_violation(fp0, sv, n))
            wits.append(dict(witness=r.witness, walk=r.walk, diags=r.diags, status=r.status))
    for r in res:
        paths += r['paths']; steps += r['steps']; queries += r['queries']; stime += r['solver_time']; fns |= set(r['fns']); mods |= set(r['models'])
        viol += r['viol']; inconc += r['inconclusive']; wits += r['witnesses']; forks += r['forks']
    spaths = 0
    for r in sres:
        spaths += r['paths']; steps += r['steps']; queries += r['queries']; stime += r['solver_time']; fns |= set(r['fns']); mods |= set(r['models'])
        viol += r['viol']; inconc += r['inconclusive']
    # native cross-validation of lexable witnesses + confirmation of violations
    lines = [' '.join(fp0.tokens[k] for k in w['witness']) for w in wits]
    nat = fe_native_run(exe, lines) if lines else []
    validated = 0; mism = []; sema_panics = 0; unlexable = 0
    for w, o in zip(wits, nat):
        if o.get('unlexable'): unlexable += 1; continue
        validated += 1
        d = compare_front_native(fp0, w, o)
        if d: mism.append(f"{[fp0.tokens[k] for k in w['witness']]}: {d[:300]}")
        if o.get('sema_panic') or o.get('sema_spans_ok') is False: sema_panics += 1
    # semantic analysis on solver-enumerated grammar files (native execution of the real SemanticPass on one representative per parser path)
    smoke_paths = 0; smoke_run = 0
    for r in smoke:
        smoke_paths += r['paths']; steps += r['steps']; queries += r['queries']; stime += r['solver_time']; inconc += r['inconclusive']
        pairs = []; seen_txt = set()
        for w in r['witnesses']:
            for nm in NAMINGS:
                x = smoke_text([fp0.tokens[k] for k in w], nm)
                if x not in seen_txt: seen_txt.add(x); pairs.append((w, x))
        texts = [x for _, x in pairs]
        for (w, _), txt, o in zip(pairs, texts, fe_native_run(exe, ['TEXT ' + x.encode().hex() for x in texts]) if texts else []):
            smoke_run += 1
            if o.get('panic') or o.get('bad_spans'):
                viol.append(dict(kind='sema-panic' if o.get('panic') else 'sema-span', n=len(w), witness=w, text=txt, smoke=True,
                                 detail='the real front end (tokenize + Parser + SemanticPass::run) ' + ('panics' if o.get('panic') else f"reports spans {o.get('bad_spans')} outside the text or inside a character") + f' on the grammar file {txt!r} enumerated by the solver'))
    reported = []
    known = load_known()
    viol = [v for v in viol if v['kind'] != 'string-escape-diagnostics']
    for v in viol:
        if v.get('smoke'):
            o = fe_native_run(exe, ['TEXT ' + v['text'].encode().hex()])[0]
            v['native'] = o; v['replay_text'] = v['text']; v['confirmed'] = bool(o.get('panic') or o.get('bad_spans'))
        elif 'span_cex' in v:
            sv = v['span_cex']; kinds = [fp0.tokens[k] for k in sv['witness']]
            texts = mb_texts(kinds, sv['bounds'], sv['lo'], sv['hi'])
            outs = fe_native_run(exe, ['TEXT ' + x.encode().hex() for x in texts])
            v['confirmed'] = False
            for x, o in zip(texts, outs):
                if o.get('panic') or o.get('bad_spans'): v['confirmed'] = True; v['native'] = o; v['replay_text'] = x; v['text'] = x; break
            if not v['confirmed']: v['text'] = texts[0]
        elif 'text' in v:
            full = "token A=" + v['text'] + ";\nstart s;\ns: A;\n"
            o = fe_native_run(exe, ['TEXT ' + full.encode().hex()])[0]
            v['native'] = o; v['replay_text'] = full
            v['confirmed'] = bool(o.get('panic') or o.get('bad_spans'))
        else:
            o = fe_native_run(exe, [' '.join(fp0.tokens[k] for k in v['witness'])])[0]
            v['native'] = o if len(json.dumps(o)) < 2000 else '...'
            v['confirmed'] = bool(o.get('panic') or o.get('sema_panic') or o.get('sema_spans_ok') is False) if not o.get('unlexable') else None
    return finish(t, sd, t0, N, NS, paths, spaths, steps, queries, stime, fns, mods, viol, inconc, validated, unlexable, mism, sema_panics, forks, wits, fp0, smoke_paths, smoke_run, KS)

def load_known():
    from .cli import load_known as lk
    return lk()

def finish(t, sd, t0, N, NS, paths, spaths, steps, queries, stime, fns, mods, viol, inconc, validated, unlexable, mism, sema_panics, forks, wits, fp0, smoke_paths=0, smoke_run=0, KS=0):
    from .cli import match_known, VERIF
    known = load_known()
    reported = 0; seen = set(); known_hits = {}
    for v in viol:
        if v['confirmed'] is False:
            inconc.append(f"counterexample did not reproduce natively: {v['kind']} {v.get('text', v.get('witness'))}"); continue
        if v['confirmed'] is None:
            # an input the real lexer cannot produce (adjacent tokens that would be lexed as one): the parser-stage defect is
            # real for the parser API, but not reachable from text; reported separately, not as a violation
            inconc.append(f"parser-stage counterexample is not producible by the lexer: {v['kind']} {[fp0.tokens[k] for k in v['witness']]}"); continue
        vv = dict(prop='C12', kind=v['kind'], gname='lelwel.llw front end', family='frontend')
        k = match_known(known, vv)
        if k is not None: known_hits[k['text']] = known_hits.get(k['text'], 0) + 1; continue
        if v['kind'] in seen: continue
        seen.add(v['kind'])
        d = os.path.join(VERIF, 'replays', 'C12'); os.makedirs(d, exist_ok=True)
        import hashlib
        body = dict(property='C12', kind=v['kind'], detail=v['detail'], text=v.get('replay_text'), tokens=[fp0.tokens[k] for k in v.get('witness', [])], native=v.get('native'))
        p = os.path.join(d, hashlib.sha256(json.dumps(body, sort_keys=True, default=str).encode()).hexdigest()[:16] + '.json')
        json.dump(body, open(p, 'w'), indent=1, default=str)
        print(f"VIOLATION property=C12 replay={p}")
        print(f"   {v['kind']}: {v['detail'][:300]} input={v.get('text', None)!r} {[fp0.tokens[k] for k in v.get('witness', [])]}")
        reported += 1
    for ktext, cnt in known_hits.items(): print(f"KNOWN-FINDING: property=C12 {ktext} ({cnt} paths)")
    samples = [dict(tokens=[fp0.tokens[k] for k in w['witness']], diagnostics=[list(d[2]) for d in w['diags'] if d[2]]) for w in wits[:6]]
    cov = dict(states=max(1, paths + spaths + forks), transitions=max(1, steps), traces_validated_against_impl=validated,
               samples=samples or [{'note': 'none'}], exhaustive=not inconc,
               explanation='states = leaves + fork nodes of the decision trees of the front-end parser (per input length) and of check_string (per string length); transitions = MIR statements executed',
               bounds=dict(max_lexical_items=N, token_kinds=fp0.NTOK - 1, string_chars_max=NS, tier=t),
               parser_paths=paths, check_string_paths=spaths, sema_smoke=dict(prelude=' '.join(PRELUDE), suffix_tokens_max=KS, viable_prefixes_up_to=VIABLE_MAX[0], namings=list(NAMINGS), parser_paths=smoke_paths, grammar_files_run_through_real_sema=smoke_run, note='SemanticPass::run is executed natively on one solver-chosen representative per parser path; it is not executed symbolically'), solver_queries=queries, solver_time_s=round(stime, 3),
               functions_encoded=sorted(fns), std_models=sorted(mods),
               witnesses_not_producible_by_the_real_lexer=unlexable, native_sema_panics_or_bad_spans_on_validated_witnesses=sema_panics,
               inconclusive=inconc[:40], engine_native_mismatches=mism[:20], known_findings_hit=known_hits, violations_reported=reported)
    cov['built_from'] = dict(harness.LLW_INFO) or dict(repo=harness.REPO, source_digest=harness.source_digest())   # which source tree this run compiled
    ev = dict(property_id='C12', tier=t, seed=sd, level='model_checking', coverage=cov, wall_s=round(time.time() - t0, 2), violations=reported,
              assumptions=['PARTIAL: the logos lexer (tokenize/parse_string/parse_block_comment) is intercepted, SemanticPass::run is not executed symbolically',
                           'parser stage: token i occupies bytes [b_i, b_{i+1}) with symbolic boundaries 0 = b_0 < b_1 < .. < b_n = text length (gapless lexer); a span end point must be a boundary or lie inside a token of an ASCII-only kind (all kinds except ' + ', '.join(MB_KINDS) + ')',
                           'check_string: strings of symbolic code points constrained to the shape parse_string guarantees for a Str token',
                           'codespan Diagnostic/Label builders are modelled (severity, message, first label)'])
    os.makedirs(os.path.join(VERIF, 'evidence'), exist_ok=True)
    json.dump(ev, open(os.path.join(VERIF, 'evidence', 'C12.json'), 'w'), indent=1, default=str)
    print(f"C12: sema smoke: {smoke_paths} parser paths over prelude + suffix <= {KS} tokens, {smoke_run} grammar files run through the real SemanticPass")
    print(f"C12: tier={t} N={N} parser_paths={paths} check_string_paths={spaths} validated={validated} (unlexable {unlexable}) violations={reported} known={sum(known_hits.values())} inconclusive={len(inconc)} mismatches={len(mism)} sema_panics={sema_panics} wall={time.time() - t0:.1f}s")
    if reported: return 1
    if inconc or mism or sema_panics:
        for x in (inconc + mism)[:10]: print('INCONCLUSIVE:', x[:300])
        return 2
    return 0
