// Native replay of front-end witnesses: token kinds -> canonical lexemes -> REAL tokenize + Parser::parse (+ SemanticPass::run)
use lelwel::frontend::lexer::tokenize;
use lelwel::frontend::parser::{Cst, Node, NodeRef, Parser};
use lelwel::frontend::sema::SemanticPass;
use lelwel::frontend::ast::{self, AstNode, Named};
use std::io::BufRead;

thread_local! { static VARIANT: std::cell::Cell<u8> = std::cell::Cell::new(0); }
fn lexeme(kind: &str) -> &'static str {
    // lexeme variants for the token kinds that carry a payload (V1: zero / empty payloads, V2: several digits, leading zero)
    match (VARIANT.with(|v| v.get()), kind) {
        (1, "NodeMarker") => return "<0", (1, "NodeCreation") => return "0>n", (1, "Predicate") => return "?t", (1, "Action") => return "#0",
        (1, "Assertion") => return "!0", (1, "NodeRename") => return "@", (1, "Id") => return "a1_b",
        (2, "NodeMarker") => return "<010", (2, "NodeCreation") => return "010>", (2, "Predicate") => return "?12", (2, "Action") => return "#12",
        (2, "Assertion") => return "!12", (2, "NodeRename") => return "@rn2", (2, "Id") => return "Zz",
        (3, "NodeCreation") => return ">", (3, "NodeMarker") => return "<7", (3, "Predicate") => return "?0",
        _ => {}
    }
    match kind {
        "LineComment" => "//c\n", "BlockComment" => "/*c*/", "DocComment" => "///d\n", "Whitespace" => " ",
        "Token" => "token", "Start" => "start", "Right" => "right", "Skip" => "skip", "Part" => "part",
        "Colon" => ":", "Semi" => ";", "Equal" => "=", "LPar" => "(", "RPar" => ")", "LBrak" => "[", "RBrak" => "]",
        "Or" => "|", "Star" => "*", "Plus" => "+", "Hat" => "^", "Tilde" => "~", "And" => "&", "Slash" => "/",
        "Id" => "a", "Str" => "'s'", "Predicate" => "?1", "Action" => "#1", "Assertion" => "!1", "NodeRename" => "@r",
        "NodeMarker" => "<1", "NodeCreation" => "1>n", "Error" => "$",
        _ => panic!("kind {kind}"),
    }
}
fn walk(cst: &Cst<'_>, n: NodeRef, out: &mut String) {
    let sp = cst.span(n);
    match cst.get(n) {
        Node::Rule(r, _) => {
            out.push_str(&format!("[\"R\",\"{r:?}\",{},{},[", sp.start, sp.end));
            let mut first = true;
            for c in cst.children(n) { if !first { out.push(','); } first = false; walk(cst, c, out); }
            out.push_str("]]");
        }
        Node::Token(t, _) => out.push_str(&format!("[\"T\",\"{t:?}\",{},{}]", sp.start, sp.end)),
    }
}
fn pos(o: Option<(&str, std::ops::Range<usize>)>) -> String { match o { Some((_, sp)) => format!("{}", sp.start), None => "null".to_string() } }
fn regex(cst: &Cst<'_>, r: ast::Regex, out: &mut String) {
    use ast::Regex::*;
    match r {
        OrderedChoice(x) => { out.push_str("[\"ordered_choice\",["); let mut f = true; for o in x.operands(cst) { if !f { out.push(','); } f = false; regex(cst, o, out); } out.push_str("]]"); }
        Alternation(x) => { out.push_str("[\"alternation\",["); let mut f = true; for o in x.operands(cst) { if !f { out.push(','); } f = false; regex(cst, o, out); } out.push_str("]]"); }
        Concat(x) => { out.push_str("[\"concat\",["); let mut f = true; for o in x.operands(cst) { if !f { out.push(','); } f = false; regex(cst, o, out); } out.push_str("]]"); }
        Paren(x) => { out.push_str("[\"paren\","); match x.inner(cst) { Some(i) => regex(cst, i, out), None => out.push_str("null") } out.push(']'); }
        Optional(x) => { out.push_str("[\"optional\","); match x.operand(cst) { Some(i) => regex(cst, i, out), None => out.push_str("null") } out.push(']'); }
        Star(x) => { out.push_str("[\"star\","); match x.operand(cst) { Some(i) => regex(cst, i, out), None => out.push_str("null") } out.push(']'); }
        Plus(x) => { out.push_str("[\"plus\","); match x.operand(cst) { Some(i) => regex(cst, i, out), None => out.push_str("null") } out.push(']'); }
        Name(x) => out.push_str(&format!("[\"leaf\",\"name\",{}]", pos(x.value(cst)))),
        Symbol(x) => out.push_str(&format!("[\"leaf\",\"symbol\",{}]", pos(x.value(cst)))),
        Predicate(x) => out.push_str(&format!("[\"leaf\",\"predicate\",{}]", pos(x.value(cst)))),
        Action(x) => out.push_str(&format!("[\"leaf\",\"action\",{}]", pos(x.value(cst)))),
        Assertion(x) => out.push_str(&format!("[\"leaf\",\"assertion\",{}]", pos(x.value(cst)))),
        NodeRename(x) => out.push_str(&format!("[\"leaf\",\"node_rename\",{}]", pos(x.value(cst)))),
        NodeMarker(x) => out.push_str(&format!("[\"leaf\",\"node_marker\",{}]", pos(x.value(cst)))),
        NodeCreation(x) => out.push_str(&format!("[\"leaf\",\"node_creation\",{}]", pos(x.value(cst)))),
        NodeElision(_) => out.push_str("[\"leaf\",\"node_elision\",null]"),
        Commit(_) => out.push_str("[\"leaf\",\"commit\",null]"),
        Return(_) => out.push_str("[\"leaf\",\"return\",null]"),
    }
}
fn derived(cst: &Cst<'_>, r: ast::Regex, out: &mut Vec<String>) {
    use ast::Regex::*;
    let o = |x: Option<&str>| x.map_or("~none~".to_string(), |s| s.to_string());
    match r {
        OrderedChoice(x) => for y in x.operands(cst) { derived(cst, y, out) },
        Alternation(x) => for y in x.operands(cst) { derived(cst, y, out) },
        Concat(x) => for y in x.operands(cst) { derived(cst, y, out) },
        Paren(x) => if let Some(i) = x.inner(cst) { derived(cst, i, out) },
        Optional(x) => if let Some(i) = x.operand(cst) { derived(cst, i, out) },
        Star(x) => if let Some(i) = x.operand(cst) { derived(cst, i, out) },
        Plus(x) => if let Some(i) = x.operand(cst) { derived(cst, i, out) },
        Predicate(x) => if let Some((t, _)) = x.value(cst) { out.push(format!("predicate|{}|{}", t, x.is_true(cst))) },
        NodeMarker(x) => if let Some((t, _)) = x.value(cst) { out.push(format!("node_marker|{}|{}", t, x.number(cst))) },
        NodeCreation(x) => if let Some((t, _)) = x.value(cst) { out.push(format!("node_creation|{}|{}|{}|{}", t, o(x.number(cst)), o(x.node_name(cst)), x.whole_rule(cst))) },
        _ => {}
    }
}
fn view(cst: &Cst<'_>, out: &mut String) {
    let Some(file) = ast::File::cast(cst, NodeRef::ROOT) else { out.push_str("null"); return; };
    out.push_str("{\"tokens\":[");
    let mut f = true;
    for t in file.token_decls(cst) { if !f { out.push(','); } f = false; out.push_str(&format!("[{},{}]", pos(t.name(cst)), pos(t.symbol(cst)))); }
    out.push_str("],\"rules\":[");
    f = true;
    for r in file.rule_decls(cst) {
        if !f { out.push(','); } f = false;
        out.push_str(&format!("[{},{},", pos(r.name(cst)), r.is_elided(cst)));
        match r.regex(cst) { Some(x) => regex(cst, x, out), None => out.push_str("null") }
        out.push(']');
    }
    out.push_str("],\"derived\":[");
    let mut dv = vec![];
    for r in file.rule_decls(cst) { if let Some(x) = r.regex(cst) { derived(cst, x, &mut dv); } }
    out.push_str(&dv.iter().map(|d| format!("{:?}", d)).collect::<Vec<_>>().join(","));
    out.push_str("],\"starts\":[");
    f = true;
    for s in file.start_decls(cst) { if !f { out.push(','); } f = false; out.push_str(&pos(s.rule_name(cst))); }
    out.push_str("],\"rights\":[");
    f = true;
    for d in file.right_decls(cst) { if !f { out.push(','); } f = false; let mut v = vec![]; d.token_names(cst, |(_, sp)| v.push(sp.start.to_string())); out.push_str(&format!("[{}]", v.join(","))); }
    out.push_str("],\"skips\":[");
    f = true;
    for d in file.skip_decls(cst) { if !f { out.push(','); } f = false; let mut v = vec![]; d.token_names(cst, |(_, sp)| v.push(sp.start.to_string())); out.push_str(&format!("[{}]", v.join(","))); }
    out.push_str("],\"parts\":[");
    f = true;
    for d in file.part_decls(cst) { if !f { out.push(','); } f = false; let mut v = vec![]; d.rule_names(cst, |(_, sp)| v.push(sp.start.to_string())); out.push_str(&format!("[{}]", v.join(","))); }
    out.push_str("]}");
}
fn main() {
    for line in std::io::stdin().lock().lines() {
        let line = line.unwrap();
        if let Some(rest) = line.strip_prefix("TWICE ") {
            // lelwel::compile twice in THIS process on two copies of the same grammar: generated code must be byte-identical
            let (dir, hex) = rest.split_once(' ').unwrap();
            let bytes: Vec<u8> = (0..hex.len() / 2).map(|i| u8::from_str_radix(&hex[2 * i..2 * i + 2], 16).unwrap()).collect();
            let mut outs = vec![];
            for k in 0..2 {
                let d = format!("{dir}/run{k}");
                let _ = std::fs::remove_dir_all(&d);
                std::fs::create_dir_all(&d).unwrap();
                std::fs::write(format!("{d}/g.llw"), &bytes).unwrap();
                let ok = lelwel::compile(&format!("{d}/g.llw"), &d, false, false, 0, false, true);
                let generated = std::fs::read(format!("{d}/generated.rs")).ok();
                outs.push((format!("{ok:?}"), generated));
            }
            let same = outs[0] == outs[1];
            let first_diff = match (&outs[0].1, &outs[1].1) {
                (Some(a), Some(b)) => a.iter().zip(b.iter()).position(|(x, y)| x != y).map(|p| p as i64).unwrap_or(if a.len() == b.len() { -1 } else { a.len().min(b.len()) as i64 }),
                _ => -1,
            };
            println!("{{\"twice\":true,\"same\":{},\"generated\":{},\"len\":{},\"first_diff\":{}}}", same, outs[0].1.is_some(), outs[0].1.as_ref().map_or(0, |v| v.len()), first_diff);
            continue;
        }
        if let Some(hex) = line.strip_prefix("TEXT ") {
            // raw text mode: the whole front end on an arbitrary UTF-8 text given as hex
            let bytes: Vec<u8> = (0..hex.len() / 2).map(|i| u8::from_str_radix(&hex[2 * i..2 * i + 2], 16).unwrap()).collect();
            let text = String::from_utf8(bytes).unwrap();
            let res = std::panic::catch_unwind(|| {
                let mut diags = vec![];
                let cst = Parser::new(&text, &mut diags).parse(&mut diags);
                let _ = SemanticPass::run(&cst, &mut diags);
                let mut bad = String::new(); let mut all = String::new();
                for d in diags.iter() { for l in d.labels.iter() {
                    let r = &l.range;
                    all.push_str(&format!("[{},{}],", r.start, r.end));
                    if !(r.start <= r.end && r.end <= text.len() && text.is_char_boundary(r.start) && text.is_char_boundary(r.end)) { bad.push_str(&format!("[{},{}],", r.start, r.end)); }
                } }
                format!("{{\"text_mode\":true,\"panic\":false,\"len\":{},\"spans\":[{}],\"bad_spans\":[{}]}}", text.len(), all.trim_end_matches(','), bad.trim_end_matches(','))
            });
            match res { Ok(s) => println!("{s}"), Err(_) => println!("{{\"text_mode\":true,\"panic\":true}}") }
            continue;
        }
        let mut line = line.as_str();
        VARIANT.with(|v| v.set(0));
        for k in 1..=3u8 { if let Some(rest) = line.strip_prefix(&format!("V{k} ")) { VARIANT.with(|v| v.set(k)); line = rest; } }
        let kinds: Vec<String> = line.split_whitespace().map(|s| s.to_string()).collect();
        let text: String = kinds.iter().map(|k| lexeme(k)).collect();
        let mut ld = vec![];
        let (toks, spans) = tokenize(&text, &mut ld);
        let lexed: Vec<String> = toks.iter().map(|t| format!("{t:?}")).collect();
        if lexed != kinds { println!("{{\"unlexable\":true}}"); continue; }
        let res = std::panic::catch_unwind(|| {
            let mut diags = vec![];
            let cst = Parser::new(&text, &mut diags).parse(&mut diags);
            let nlex = ld.len();
            let mut out = String::from("{\"spans\":[");
            for (i, s) in spans.iter().enumerate() { if i > 0 { out.push(','); } out.push_str(&format!("[{},{}]", s.start, s.end)); }
            out.push_str(&format!("],\"len\":{},\"diags\":[", text.len()));
            for (i, d) in diags.iter().skip(nlex).enumerate() {
                if i > 0 { out.push(','); }
                let r = &d.labels[0].range; out.push_str(&format!("[{},{}]", r.start, r.end));
            }
            out.push_str("],\"walk\":");
            walk(&cst, NodeRef::ROOT, &mut out);
            out.push_str(",\"view\":");
            view(&cst, &mut out);
            let nparse = diags.len();
            let sema = std::panic::catch_unwind(std::panic::AssertUnwindSafe(|| { let mut d2 = diags; let _ = SemanticPass::run(&cst, &mut d2); d2 }));
            match sema {
                Ok(d2) => {
                    let ok = d2.iter().all(|d| d.labels.iter().all(|l| l.range.start <= l.range.end && l.range.end <= text.len() && text.is_char_boundary(l.range.start) && text.is_char_boundary(l.range.end)));
                    out.push_str(&format!(",\"sema_panic\":false,\"sema_spans_ok\":{},\"sema_diags\":{}", ok, d2.len() - nparse));
                }
                Err(_) => out.push_str(",\"sema_panic\":true"),
            }
            out.push('}');
            out
        });
        match res { Ok(s) => println!("{s}"), Err(_) => println!("{{\"panic\":true}}") }
    }
}
