// Native replay of front-end witnesses: token kinds -> canonical lexemes -> REAL tokenize + Parser::parse (+ SemanticPass::run)
use lelwel::frontend::lexer::tokenize;
use lelwel::frontend::parser::{Cst, Node, NodeRef, Parser};
use lelwel::frontend::sema::SemanticPass;
use std::io::BufRead;

fn lexeme(kind: &str) -> &'static str {
    match kind {
        "LineComment" => "//c\n", "BlockComment" => "/*c*/", "DocComment" => "///d\n", "Whitespace" => " ",
        "Token" => "token", "Start" => "start", "Right" => "right", "Skip" => "skip", "Part" => "part",
        "Colon" => ":", "Semi" => ";", "Equal" => "=", "LPar" => "(", "RPar" => ")", "LBrak" => "[", "RBrak" => "]",
        "Or" => "|", "Star" => "*", "Plus" => "+", "Hat" => "^", "Tilde" => "~", "And" => "&", "Slash" => "/",
        "Id" => "a", "Str" => "'s'", "Predicate" => "?1", "Action" => "#1", "Assertion" => "!1", "NodeRename" => "@r",
        "NodeMarker" => "<1", "NodeCreation" => "1>n", "Error" => "$",
        _ => panic!("kind {kind}"),
    }
}
fn walk(cst: &Cst<'_>, n: NodeRef, out: &mut String) {
    let sp = cst.span(n);
    match cst.get(n) {
        Node::Rule(r, _) => {
            out.push_str(&format!("[\"R\",\"{r:?}\",{},{},[", sp.start, sp.end));
            let mut first = true;
            for c in cst.children(n) { if !first { out.push(','); } first = false; walk(cst, c, out); }
            out.push_str("]]");
        }
        Node::Token(t, _) => out.push_str(&format!("[\"T\",\"{t:?}\",{},{}]", sp.start, sp.end)),
    }
}
fn main() {
    for line in std::io::stdin().lock().lines() {
        let line = line.unwrap();
        if let Some(hex) = line.strip_prefix("TEXT ") {
            // raw text mode: the whole front end on an arbitrary UTF-8 text given as hex
            let bytes: Vec<u8> = (0..hex.len() / 2).map(|i| u8::from_str_radix(&hex[2 * i..2 * i + 2], 16).unwrap()).collect();
            let text = String::from_utf8(bytes).unwrap();
            let res = std::panic::catch_unwind(|| {
                let mut diags = vec![];
                let cst = Parser::new(&text, &mut diags).parse(&mut diags);
                let _ = SemanticPass::run(&cst, &mut diags);
                let mut bad = String::new(); let mut all = String::new();
                for d in diags.iter() { for l in d.labels.iter() {
                    let r = &l.range;
                    all.push_str(&format!("[{},{}],", r.start, r.end));
                    if !(r.start <= r.end && r.end <= text.len() && text.is_char_boundary(r.start) && text.is_char_boundary(r.end)) { bad.push_str(&format!("[{},{}],", r.start, r.end)); }
                } }
                format!("{{\"text_mode\":true,\"panic\":false,\"len\":{},\"spans\":[{}],\"bad_spans\":[{}]}}", text.len(), all.trim_end_matches(','), bad.trim_end_matches(','))
            });
            match res { Ok(s) => println!("{s}"), Err(_) => println!("{{\"text_mode\":true,\"panic\":true}}") }
            continue;
        }
        let kinds: Vec<String> = line.split_whitespace().map(|s| s.to_string()).collect();
        let text: String = kinds.iter().map(|k| lexeme(k)).collect();
        let mut ld = vec![];
        let (toks, spans) = tokenize(&text, &mut ld);
        let lexed: Vec<String> = toks.iter().map(|t| format!("{t:?}")).collect();
        if lexed != kinds { println!("{{\"unlexable\":true}}"); continue; }
        let res = std::panic::catch_unwind(|| {
            let mut diags = vec![];
            let cst = Parser::new(&text, &mut diags).parse(&mut diags);
            let nlex = ld.len();
            let mut out = String::from("{\"spans\":[");
            for (i, s) in spans.iter().enumerate() { if i > 0 { out.push(','); } out.push_str(&format!("[{},{}]", s.start, s.end)); }
            out.push_str(&format!("],\"len\":{},\"diags\":[", text.len()));
            for (i, d) in diags.iter().skip(nlex).enumerate() {
                if i > 0 { out.push(','); }
                let r = &d.labels[0].range; out.push_str(&format!("[{},{}]", r.start, r.end));
            }
            out.push_str("],\"walk\":");
            walk(&cst, NodeRef::ROOT, &mut out);
            let nparse = diags.len();
            let sema = std::panic::catch_unwind(std::panic::AssertUnwindSafe(|| { let mut d2 = diags; let _ = SemanticPass::run(&cst, &mut d2); d2 }));
            match sema {
                Ok(d2) => {
                    let ok = d2.iter().all(|d| d.labels.iter().all(|l| l.range.start <= l.range.end && l.range.end <= text.len() && text.is_char_boundary(l.range.start) && text.is_char_boundary(l.range.end)));
                    out.push_str(&format!(",\"sema_panic\":false,\"sema_spans_ok\":{},\"sema_diags\":{}", ok, d2.len() - nparse));
                }
                Err(_) => out.push_str(",\"sema_panic\":true"),
            }
            out.push('}');
            out
        });
        match res { Ok(s) => println!("{s}"), Err(_) => println!("{{\"panic\":true}}") }
    }
}
