"""C13 (partial): reading a grammar file recovers the grammar that was written.
MIRSE on the lelwel crate's MIR: front-end parser + the typed accessors of frontend/ast.rs, over symbolic token sequences
that are SENTENCES of the grammar language (membership formula of a reference grammar written from the README is asserted
up front, so the solver prunes non-sentences), with one symbolic trivia token inserted at every gap.  Per path: no syntax
diagnostic, and the typed view read through the real accessors (File::token_decls / rule_decls / start_decls,
Named::name, TokenDecl::symbol, RuleDecl::is_elided / regex, *::operands / inner / operand / value) equals the view
computed by an independent recursive-descent reading of the token kinds (postfix > concat > '/' > '|').
Outside: text -> tokens (names, numbers and symbols are compared as token positions, not strings);
RightDecl/SkipDecl/PartDecl::token_names (callback-taking accessors) are read from the tree's children instead."""
import os, sys, time, json, traceback, random
from concurrent.futures import ProcessPoolExecutor, as_completed
import z3
from . import harness, run, frontend, props, c12
from .gram import *
from .interp import *
from .models import it_next
from .oracle import Oracle
from .mir import Unsupported

TRIVIA = ['LineComment', 'BlockComment', 'DocComment', 'Whitespace']
ATOMS = ['Id', 'Str', 'Predicate', 'Action', 'Assertion', 'NodeRename', 'NodeMarker', 'NodeCreation', 'Hat', 'Tilde', 'And']

def reference_grammar():
    """the grammar language as documented in the README ('Grammar Specification'), in the corpus model format"""
    idstr = alt(tok('Id'), tok('Str'))
    rules = [
        ('file', False, star(ref('decl'))),
        ('decl', False, alt(ref('token_list'), ref('rule_decl'), ref('start_decl'), ref('right_decl'), ref('skip_decl'), ref('part_decl'))),
        ('token_list', False, seq(tok('Token'), plus(ref('token_decl')), tok('Semi'))),
        ('token_decl', False, seq(tok('Id'), opt(seq(tok('Equal'), tok('Str'))))),
        ('start_decl', False, seq(tok('Start'), tok('Id'), tok('Semi'))),
        ('right_decl', False, seq(tok('Right'), plus(idstr), tok('Semi'))),
        ('skip_decl', False, seq(tok('Skip'), plus(idstr), tok('Semi'))),
        ('part_decl', False, seq(tok('Part'), plus(tok('Id')), tok('Semi'))),
        ('rule_decl', False, seq(tok('Id'), opt(tok('Hat')), tok('Colon'), opt(ref('regex')), tok('Semi'))),
        ('regex', False, seq(ref('choice'), star(seq(tok('Or'), ref('choice'))))),
        ('choice', False, seq(ref('concat'), star(seq(tok('Slash'), ref('concat'))))),
        ('concat', False, plus(ref('postfix'))),
        ('postfix', False, seq(ref('atom'), star(alt(tok('Star'), tok('Plus'))))),
        ('atom', False, alt(seq(tok('LPar'), opt(ref('regex')), tok('RPar')), seq(tok('LBrak'), ref('regex'), tok('RBrak')), *[tok(k) for k in ATOMS])),
    ]
    return Grammar([], rules, 'file', name='grammar-language')

# ---------------------------------------------------------------- independent reading of a token-kind sequence
class RefReader:
    def __init__(self, kinds): self.k = kinds; self.i = 0
    def la(self): return self.k[self.i] if self.i < len(self.k) else None
    def eat(self, kind):
        if self.la() != kind: raise SyntaxError(f'expected {kind} at {self.i}')
        self.i += 1; return self.i - 1
    def file(self):
        out = dict(tokens=[], rules=[], starts=[], rights=[], skips=[], parts=[])
        while self.la() is not None:
            t = self.la()
            if t == 'Token':
                self.eat('Token'); ds = []
                while self.la() == 'Id':
                    n = self.eat('Id'); s = None
                    if self.la() == 'Equal': self.eat('Equal'); s = self.eat('Str')
                    out['tokens'].append((n, s))
                self.eat('Semi')
            elif t == 'Start': self.eat('Start'); out['starts'].append(self.eat('Id')); self.eat('Semi')
            elif t in ('Right', 'Skip', 'Part'):
                self.eat(t); xs = []
                while self.la() in (('Id',) if t == 'Part' else ('Id', 'Str')): xs.append(self.eat(self.la()))
                self.eat('Semi'); out[{'Right': 'rights', 'Skip': 'skips', 'Part': 'parts'}[t]].append(xs)
            elif t == 'Id':
                n = self.eat('Id'); el = False
                if self.la() == 'Hat': self.eat('Hat'); el = True
                self.eat('Colon')
                rx = None if self.la() == 'Semi' else self.regex()
                self.eat('Semi'); out['rules'].append((n, el, rx))
            else: raise SyntaxError(f'declaration cannot start with {t}')
        return out
    def regex(self):
        xs = [self.choice()]
        while self.la() == 'Or': self.eat('Or'); xs.append(self.choice())
        return xs[0] if len(xs) == 1 else ('alternation', xs)
    def choice(self):
        xs = [self.concat()]
        while self.la() == 'Slash': self.eat('Slash'); xs.append(self.concat())
        return xs[0] if len(xs) == 1 else ('ordered_choice', xs)
    def concat(self):
        xs = [self.postfix()]
        while self.la() in ATOMS + ['LPar', 'LBrak']: xs.append(self.postfix())
        return xs[0] if len(xs) == 1 else ('concat', xs)
    def postfix(self):
        x = self.atom()
        while self.la() in ('Star', 'Plus'): x = ('star' if self.la() == 'Star' else 'plus', x); self.i += 1
        return x
    def atom(self):
        t = self.la()
        if t == 'LPar':
            self.eat('LPar'); x = None if self.la() == 'RPar' else self.regex(); self.eat('RPar'); return ('paren', x)
        if t == 'LBrak':
            self.eat('LBrak'); x = self.regex(); self.eat('RBrak'); return ('optional', x)
        if t in ATOMS:
            i = self.eat(t)
            name = {'Id': 'name', 'Str': 'symbol', 'Predicate': 'predicate', 'Action': 'action', 'Assertion': 'assertion', 'NodeRename': 'node_rename',
                    'NodeMarker': 'node_marker', 'NodeCreation': 'node_creation', 'Hat': 'node_elision', 'Tilde': 'commit', 'And': 'return'}[t]
            return ('leaf', name, i if t not in ('Hat', 'Tilde', 'And') else None)
        raise SyntaxError(f'atom cannot start with {t}')

# ---------------------------------------------------------------- typed view through the real accessors (interpreted)
class View:
    def __init__(self, fp, r, cst):
        self.fp, self.r, self.cref = fp, r, Ref([cst], 0)
        self.B = fp.prog.byname
        self.regex_variants = fp.types.enums['Regex']
    def call(self, key, args):
        f = self.B.get(key)
        if f is None: raise Unsupported('accessor not found in MIR: ' + key)
        return self.r.call(f, args)
    def tokidx(self, opt):
        """Option<(&str, Span)> -> token index (span start; spans are [i,i+1))"""
        if opt.disc == 0: return None
        return opt.f[0].f[1].f[0]
    def drain(self, it):
        out = []
        while True:
            o = it_next(self.r, it)
            if o.disc == 0: return out
            out.append(o.f[0])
    def file(self):
        f = self.call('<File as AstNode>::cast', [self.cref, Agg('NodeRef', None, [0])])
        if f.disc == 0: return None
        file = f.f[0]; fr = Ref([file], 0)
        out = dict(tokens=[], rules=[], starts=[], rights=[], skips=[], parts=[])
        for td in self.drain(self.call('File::token_decls', [fr, self.cref])):
            tr = Ref([td], 0)
            out['tokens'].append((self.tokidx(self.call('<TokenDecl as Named>::name', [tr, self.cref])), self.tokidx(self.call('TokenDecl::symbol', [tr, self.cref]))))
        for rd in self.drain(self.call('File::rule_decls', [fr, self.cref])):
            rr = Ref([rd], 0)
            name = self.tokidx(self.call('<RuleDecl as Named>::name', [rr, self.cref]))
            el = self.call('RuleDecl::is_elided', [rr, self.cref])
            if el.__class__ is Sym: raise Unsupported('symbolic is_elided')
            rx = self.call('RuleDecl::regex', [rr, self.cref])
            out['rules'].append((name, bool(el), self.regex(rx.f[0]) if rx.disc == 1 else None))
        for sd in self.drain(self.call('File::start_decls', [fr, self.cref])):
            out['starts'].append(self.tokidx(self.call('StartDecl::rule_name', [Ref([sd], 0), self.cref])))
        for key, fn in (('rights', 'File::right_decls'), ('skips', 'File::skip_decls'), ('parts', 'File::part_decls')):
            for d in self.drain(self.call(fn, [fr, self.cref])):
                # token_names takes a callback: the names are read from the node's token children instead
                node = d.f[0]
                it = [self.r.call(self.fp.f_children, [self.cref, copyval(node)])]; xs = []
                while True:
                    o = self.r.call(self.fp.f_next, [Ref(it, 0)])
                    if o.disc == 0: break
                    g = self.r.call(self.fp.f_get, [self.cref, copyval(o.f[0])])
                    if g.disc != self.fp.node_rule:
                        kind = run.tokterm(g.f[0].disc)
                        xs.append((kind, run.cst_index(g.f[1])))
                out[key].append(xs)
        return out
    def regex(self, rx):
        v = self.regex_variants[rx.disc]; node = rx.f[0]; nr = Ref([node], 0)
        if v in ('OrderedChoice', 'Alternation', 'Concat'):
            ops = self.drain(self.call(f'{v}::operands', [nr, self.cref]))
            return ({'OrderedChoice': 'ordered_choice', 'Alternation': 'alternation', 'Concat': 'concat'}[v], [self.regex(o) for o in ops])
        if v == 'Paren':
            o = self.call('Paren::inner', [nr, self.cref]); return ('paren', self.regex(o.f[0]) if o.disc == 1 else None)
        if v in ('Optional', 'Star', 'Plus'):
            o = self.call(f'{v}::operand', [nr, self.cref])
            return ({'Optional': 'optional', 'Star': 'star', 'Plus': 'plus'}[v], self.regex(o.f[0]) if o.disc == 1 else None)
        snake = {'Name': 'name', 'Symbol': 'symbol', 'Predicate': 'predicate', 'Action': 'action', 'Assertion': 'assertion', 'NodeRename': 'node_rename',
                 'NodeMarker': 'node_marker', 'NodeCreation': 'node_creation', 'NodeElision': 'node_elision', 'Commit': 'commit', 'Return': 'return'}[v]
        if v in ('NodeElision', 'Commit', 'Return'): return ('leaf', snake, None)
        return ('leaf', snake, self.tokidx(self.call(f'{v}::value', [nr, self.cref])))

def shard13(args):
    mir_path, n, trivia_at, prefix = args
    out = dict(n=n, trivia_at=trivia_at, paths=0, steps=0, queries=0, solver_time=0.0, viol=[], inconclusive=[], fns=set(), models=set(), forks=0, samples=[])
    try:
        fp = c12.get_fp(mir_path)
        G = reference_grammar()
        tokidx = {t: i for i, t in enumerate(fp.tokens)}
        triv = [tokidx[k] for k in TRIVIA]; err = tokidx['Error']
        def constraint(tv):
            core = [i for i in range(n) if i != trivia_at]
            cs = [z3.And(*[tv[i] != k for k in triv + [err]]) for i in core]
            if trivia_at is not None: cs.append(z3.Or(*[tv[trivia_at] == k for k in triv]))
            o = Oracle(G.rules_dict(), 'file', [tv[i] for i in core], tokidx)
            cs.append(o.member())
            return cs
        def on_path(r, res, solver, tvars):
            if res.status != 'ok' or res.walk_err: return
            core = [i for i in range(n) if i != trivia_at]
            kinds = [fp.tokens[res.witness[i]] for i in core]
            remap = {i: k for k, i in enumerate(core)}
            try:
                v = View(fp, r, res.cst).file()
            except Panic as e:
                res.msg = 'typed view panics: ' + str(e); res.status = 'view-panic'; return
            res.view = v
        seed = [prefix] if prefix is not None else None
        results, st = frontend.explore_front(fp, n, extra_pc_fn=constraint, seed_decisions=seed, on_path=on_path)
        out['paths'] = len(results); out['steps'] = st['steps']; out['queries'] = st['queries']; out['solver_time'] = st['solver_time']
        out['fns'] = set(st['fns']); out['models'] = set(st['models']); out['forks'] = sum(r.forks for r in results)
        if not st['complete']: out['inconclusive'].append(f'n={n}: incomplete')
        core = [i for i in range(n) if i != trivia_at]
        remap = {i: k for k, i in enumerate(core)}
        rnd = random.Random(n * 131 + (trivia_at or 0) * 7 + len(prefix or []))
        out['wits'] = []
        def mapidx(x):
            return None if x is None else remap.get(x, ('trivia', x))
        def norm(v):
            def rx(x):
                if x is None: return None
                if x[0] == 'leaf': return ('leaf', x[1], mapidx(x[2]))
                if x[0] in ('alternation', 'ordered_choice', 'concat'): return (x[0], [rx(y) for y in x[1]])
                return (x[0], rx(x[1]))
            return dict(tokens=[(mapidx(a), mapidx(b)) for a, b in v['tokens']], rules=[(mapidx(a), e, rx(c)) for a, e, c in v['rules']],
                        starts=[mapidx(a) for a in v['starts']],
                        rights=[[mapidx(i) for k, i in xs][1:-1] for xs in v['rights']],
                        skips=[[mapidx(i) for k, i in xs][1:-1] for xs in v['skips']], parts=[[mapidx(i) for k, i in xs][1:-1] for xs in v['parts']])
        for r in results:
            kinds = [fp.tokens[r.witness[i]] for i in core]
            if r.status != 'ok' or r.walk_err:
                out['viol'].append(dict(kind='front-end-' + r.status, detail=f'{r.status} {r.msg} {r.walk_err}', witness=r.witness)); continue
            syn = [d for d in r.diags]
            if syn:
                out['viol'].append(dict(kind='syntax-error-on-valid-file', detail=f'{len(syn)} syntax diagnostic(s) for a sentence of the grammar language: {" ".join(kinds)}', witness=r.witness)); continue
            try: ref = RefReader(kinds).file()
            except SyntaxError as e:
                out['inconclusive'].append(f'reference reader rejects a sentence of the reference grammar: {kinds}: {e}'); continue
            got = norm(getattr(r, 'view', None)) if getattr(r, 'view', None) is not None else None
            # trivia tokens never appear in decl children lists of right/skip/part beyond the filtered kinds: drop them
            if got is not None:
                for key in ('rights', 'skips', 'parts'):
                    got[key] = [[i for i in xs if not (isinstance(i, tuple))] for xs in got[key]]
            if got != ref:
                out['viol'].append(dict(kind='typed-view', detail=f'typed view of `{" ".join(kinds)}` (trivia at {trivia_at}) is {got}, written grammar is {ref}', witness=r.witness))
            if len(out['samples']) < 2 and r.witness: out['samples'].append(dict(tokens=[fp.tokens[k] for k in r.witness], typed_view=str(got)[:300]))
            if getattr(r, 'view', None) is not None and rnd.random() < (0.5 if n <= 5 else 0.08): out['wits'].append(dict(witness=r.witness, view=r.view))
    except Unsupported as e: out['inconclusive'].append(f'n={n} trivia_at={trivia_at}: {e}')
    except Exception as e: out['inconclusive'].append(f'n={n}: internal error {e!r} {traceback.format_exc()[-700:]}')
    out['fns'] = sorted(out['fns']); out['models'] = sorted(out['models'])
    return out

def main(t, sd):
    from .cli import load_known, match_known, VERIF
    t0 = time.time()
    N = {'quick': 6, 'thorough': 7}[t]; NT = {'quick': 4, 'thorough': 5}[t]
    exe = c12.build_fe_native()
    fp0 = frontend.FrontProgram(); mir = fp0.mir_path
    tasks = []
    G = reference_grammar(); tokidx = {tk: i for i, tk in enumerate(fp0.tokens)}
    triv = [tokidx[k] for k in TRIVIA]; err = tokidx['Error']
    for n in range(0, N + 1):
        if n < 6: tasks.append((mir, n, None, None)); continue
        # big lengths: a first breadth-first layer in the parent yields decision prefixes; every prefix is one task
        def constraint(tv, n=n):
            o = Oracle(G.rules_dict(), 'file', tv, tokidx)
            return [z3.And(*[tv[i] != k for k in triv + [err]]) for i in range(n)] + [o.member()]
        first, st = frontend.explore_front(fp0, n, extra_pc_fn=constraint, max_paths=48, bfs=True)
        for r in first: tasks.append((mir, n, None, r.decisions))
        for p in st['pending']: tasks.append((mir, n, None, p))
    for n in range(1, NT + 2):
        for j in range(n): tasks.append((mir, n, j, None))
    workers = int(os.environ.get('VERIF_JOBS', '16'))
    res = []; sres = []
    NS = {'quick': 6, 'thorough': 8}[t]
    with ProcessPoolExecutor(workers) as ex:
        futs = [ex.submit(shard13, a) for a in tasks]
        sf = [ex.submit(c12.check_string_job, (mir, k)) for k in range(2, NS + 1)]
        for f in as_completed(futs): res.append(f.result())
        for f in sf: sres.append(f.result())
    viol = []; inconc = []; paths = steps = queries = forks = 0; stime = 0.0; fns = set(); mods = set(); samples = []; wits = []
    for r in res:
        wits += r.get('wits', [])
        paths += r['paths']; steps += r['steps']; queries += r['queries']; stime += r['solver_time']; forks += r['forks']
        fns |= set(r['fns']); mods |= set(r['models']); viol += r['viol']; inconc += r['inconclusive']; samples += r['samples']
    # symbols with escaped quotes and backslashes: check_string over symbolic characters, functional oracle
    spaths = 0
    for r in sres:
        spaths += r['paths']; steps += r['steps']; queries += r['queries']; stime += r['solver_time']; fns |= set(r['fns']); mods |= set(r['models']); inconc += r['inconclusive']
        for v in r['viol']:
            if v['kind'] != 'string-escape-diagnostics': continue
            full = "token A=" + v['text'] + ";\nstart s;\ns: A;\n"
            o = c12.fe_native_run(exe, ['TEXT ' + full.encode().hex()])[0]
            # natively: count the lexer-level 'invalid escape sequence' diagnostics via the spans that lie inside the literal
            lit_lo, lit_hi = 8, 8 + len(v['text'].encode())
            got = [sp for sp in o.get('spans', []) if lit_lo <= sp[0] and sp[1] <= lit_hi and sp != [lit_lo, lit_hi]]
            t_ = v['text']; exp = 0; k = 1; 
            while k < len(t_) - 1:
                if t_[k] == '\\':
                    if t_[k + 1] not in "'\\": exp += 1
                    k += 2
                else: k += 1
            if len(got) != exp:
                viol.append(dict(kind='symbol-escape-diagnostics', detail=v['detail'] + f' (native: {len(got)} diagnostics inside the literal, expected {exp})', witness=[], confirmed=True, native=o, text=full))
            else:
                inconc.append(f"check_string counterexample did not reproduce natively: {v['text']!r} native spans {o.get('spans')}")
    # native confirmation: the witness is lexed and parsed by the real front end; syntax diagnostics / tree shape are compared
    known = load_known(); reported = 0; seen = set(); validated = 0; mism = []
    def native_view_idx(o):
        idx = {s0: i for i, (s0, s1) in enumerate(o['spans'])}
        def rx(x):
            if x is None: return None
            if x[0] == 'leaf': return ('leaf', x[1], None if x[2] is None else idx[x[2]])
            if x[0] in ('alternation', 'ordered_choice', 'concat'): return (x[0], [rx(y) for y in x[1]])
            return (x[0], rx(x[1]))
        v = o['view']
        if v is None: return None
        return dict(tokens=[(idx.get(a), None if b is None else idx[b]) for a, b in v['tokens']], rules=[(idx.get(a), e, rx(c)) for a, e, c in v['rules']],
                    starts=[idx.get(a) for a in v['starts']], rights=[[idx[i] for i in xs] for xs in v['rights']], skips=[[idx[i] for i in xs] for xs in v['skips']],
                    parts=[[idx[i] for i in xs] for xs in v['parts']])
    def engine_view_cmp(v):
        def rx(x):
            if x is None: return None
            if x[0] == 'leaf': return ('leaf', x[1], x[2])
            if x[0] in ('alternation', 'ordered_choice', 'concat'): return (x[0], [rx(y) for y in x[1]])
            return (x[0], rx(x[1]))
        return dict(tokens=[tuple(t) for t in v['tokens']], rules=[(a, e, rx(c)) for a, e, c in v['rules']], starts=list(v['starts']))
    if wits:
        nat = c12.fe_native_run(exe, [' '.join(fp0.tokens[k] for k in w['witness']) for w in wits])
        for w, o in zip(wits, nat):
            if o.get('unlexable') or o.get('panic') or o.get('crash'): continue
            validated += 1
            nv = native_view_idx(o)
            ev_ = engine_view_cmp(w['view'])
            if nv is None or {k: nv[k] for k in ('tokens', 'rules', 'starts')} != ev_:
                mism.append(f"typed view differs from the native run for {[fp0.tokens[k] for k in w['witness']]}: engine {ev_} native {nv}")
    # derived string accessors (number / node_name / whole_rule / is_true) on the same witnesses, spelled with several lexeme
    # variants for the kinds that carry a payload; the expectation is read off the lexeme itself
    derived_checked = 0
    if wits:
        import re as _re
        lines = []
        for w in wits:
            kinds = [fp0.tokens[k] for k in w['witness']]
            if any(k in ('NodeMarker', 'NodeCreation', 'Predicate') for k in kinds):
                for var in ('', 'V1 ', 'V2 ', 'V3 '): lines.append((w, var + ' '.join(kinds)))
        seen_bad = set()
        for (w, line), o in zip(lines, c12.fe_native_run(exe, [l for _, l in lines]) if lines else []):
            if o.get('unlexable') or o.get('panic') or o.get('crash') or not isinstance(o.get('view'), dict): continue
            for d in o['view'].get('derived', []):
                f = d.split('|'); derived_checked += 1; bad = None
                if f[0] == 'node_marker':
                    if f[2] != f[1][1:]: bad = f'NodeMarker::number() of {f[1]!r} is {f[2]!r}, expected {f[1][1:]!r}'
                elif f[0] == 'node_creation':
                    num, _, name = f[1].partition('>')
                    exp = [num or '~none~', name or '~none~', 'true' if not num else 'false']
                    if f[2:5] != exp: bad = f'NodeCreation number/node_name/whole_rule of {f[1]!r} are {f[2:5]}, expected {exp}'
                elif f[0] == 'predicate':
                    if f[2] != ('true' if f[1] == '?t' else 'false'): bad = f'Predicate::is_true() of {f[1]!r} is {f[2]}'
                if bad and bad not in seen_bad:
                    seen_bad.add(bad)
                    viol.append(dict(kind='derived-accessor', detail=bad + f' (tokens {line})', witness=w['witness'], confirmed=True, native=d, text=line, derived=True))
    for v in viol:
        if 'text' in v: continue
        line = ' '.join(fp0.tokens[k] for k in v['witness'])
        o = c12.fe_native_run(exe, [line])[0]
        v['native'] = o if len(json.dumps(o)) < 1500 else '...'
        if o.get('unlexable'): v['confirmed'] = None
        elif v['kind'] == 'syntax-error-on-valid-file': v['confirmed'] = bool(o.get('diags'))
        elif v['kind'] == 'typed-view' and not o.get('panic'):
            # the native typed view (real ast.rs accessors incl. token_names) against the independent reading of the same tokens
            try:
                kinds = [fp0.tokens[k] for k in v['witness']]
                core = [i for i, k in enumerate(kinds) if k not in TRIVIA]
                ref = RefReader([kinds[i] for i in core]).file()
                nv = native_view_idx(o)
                back = {k: i for k, i in enumerate(core)}
                def un(x): return None if x is None else back[x]
                def rx(x):
                    if x is None: return None
                    if x[0] == 'leaf': return ('leaf', x[1], un(x[2]))
                    if x[0] in ('alternation', 'ordered_choice', 'concat'): return (x[0], [rx(y) for y in x[1]])
                    return (x[0], rx(x[1]))
                refi = dict(tokens=[(un(a), un(b)) for a, b in ref['tokens']], rules=[(un(a), e, rx(c)) for a, e, c in ref['rules']], starts=[un(a) for a in ref['starts']],
                            rights=[[un(i) for i in xs] for xs in ref['rights']], skips=[[un(i) for i in xs] for xs in ref['skips']], parts=[[un(i) for i in xs] for xs in ref['parts']])
                v['confirmed'] = nv != refi
            except Exception as e:
                v['confirmed'] = False; v['native'] = f'native comparison failed: {e!r}'
        else: v['confirmed'] = bool(o.get('panic'))
    for v in viol:
        if v['confirmed'] is None:
            inconc.append(f"counterexample not producible by the real lexer without separators: {v['kind']} {[fp0.tokens[k] for k in v['witness']]}"); continue
        if v['confirmed'] is False:
            inconc.append(f"counterexample did not reproduce natively: {v['kind']}"); continue
        if v['kind'] in seen: continue
        seen.add(v['kind'])
        import hashlib
        d = os.path.join(VERIF, 'replays', 'C13'); os.makedirs(d, exist_ok=True)
        body = dict(property='C13', kind=v['kind'], detail=v['detail'], tokens=[fp0.tokens[k] for k in v['witness']], text=v.get('text'), native=v.get('native'))
        p = os.path.join(d, hashlib.sha256(json.dumps(body, sort_keys=True, default=str).encode()).hexdigest()[:16] + '.json')
        json.dump(body, open(p, 'w'), indent=1, default=str)
        print(f"VIOLATION property=C13 replay={p}"); print(f"   {v['kind']}: {v['detail'][:400]}")
        reported += 1
    cov = dict(states=max(1, paths + forks), transitions=max(1, steps), traces_validated_against_impl=validated, samples=samples[:8] or [{'note': 'none'}],
               exhaustive=not inconc, explanation='states = leaves + fork nodes of the decision trees (per sentence length and trivia position); transitions = MIR statements executed incl. the ast.rs accessors',
               bounds=dict(max_tokens_no_trivia=N, max_tokens_with_one_trivia=NT + 1, symbol_chars_max=NS, tier=t), sentence_paths=paths, check_string_paths=spaths, solver_queries=queries, solver_time_s=round(stime, 3),
               functions_encoded=sorted(fns), std_models=sorted(mods), inconclusive=inconc[:40], engine_native_mismatches=mism[:20], violations_reported=reported)
    cov['built_from'] = dict(harness.LLW_INFO) or dict(repo=harness.REPO, source_digest=harness.source_digest())   # which source tree this run compiled
    ev = dict(property_id='C13', tier=t, seed=sd, level='model_checking', coverage=cov, wall_s=round(time.time() - t0, 2), violations=reported,
              assumptions=['PARTIAL: tokens are given (lexer intercepted): names, numbers, symbols are compared as token positions',
                           'reference grammar of the grammar language written from the README; inputs are constrained to its sentences',
                           'layout: at most one trivia token (symbolic kind) per input, at every gap',
                           'RightDecl/SkipDecl/PartDecl::token_names are not executed (callback parameter); their names are read from the node children'])
    os.makedirs(os.path.join(VERIF, 'evidence'), exist_ok=True)
    json.dump(ev, open(os.path.join(VERIF, 'evidence', 'C13.json'), 'w'), indent=1, default=str)
    print(f"C13: tier={t} N={N} sentence_paths={paths} violations={reported} inconclusive={len(inconc)} wall={time.time() - t0:.1f}s")
    print(f"C13: native validation of typed views: {validated} witnesses, {len(mism)} mismatches; derived string accessors checked on lexeme variants: {derived_checked}")
    if reported: return 1
    if inconc or mism:
        for x in (inconc + mism)[:10]: print('INCONCLUSIVE:', x[:400])
        return 2
    return 0
