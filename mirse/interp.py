"""MIRSE: path-wise symbolic executor for rustc MIR text.  Everything is concrete Python data except values wrapped in Sym
(z3 terms: token discriminants, callback outcomes and whatever is computed from them).  Branches on Sym values are
decided by z3 (see Run.choose); forking is by decision replay."""
import re, sys, time
import z3
from .mir import Fn, Program, Unsupported, split_top, mask_strings, strip_generics, base_name, match_angle

sys.setrecursionlimit(100000)

# ---------------------------------------------------------------- values
class Sym:
    __slots__ = ('e',)
    def __init__(self, e): self.e = e
    def __repr__(self): return f"Sym({self.e})"

class Agg:
    """struct / tuple / array / enum value. disc: None for struct/tuple/array, int or Sym for enums."""
    __slots__ = ('ty', 'disc', 'f')
    def __init__(self, ty, disc, f): self.ty, self.disc, self.f = ty, disc, f
    def __repr__(self): return f"{self.ty}#{self.disc}{self.f}"

class VecObj:
    __slots__ = ('items',)
    def __init__(self, items=None): self.items = items if items is not None else []
    def __repr__(self): return f"Vec{self.items}"

class Ref:
    """pointer to a slot: container (list) + key"""
    __slots__ = ('c', 'k')
    def __init__(self, c, k): self.c, self.k = c, k
    def get(self): return self.c[self.k]
    def set(self, v): self.c[self.k] = v
    def __repr__(self): return f"&[{self.k}]"

class SliceRef:
    __slots__ = ('items', 'lo', 'hi')
    def __init__(self, items, lo, hi): self.items, self.lo, self.hi = items, lo, hi
    def __repr__(self): return f"&[{self.lo}..{self.hi}]"

class SymStr:
    """&str whose characters are symbolic code points (z3 Int); byte offsets are sums of UTF-8 lengths"""
    __slots__ = ('chars',)
    def __init__(self, chars): self.chars = chars
    @staticmethod
    def len_utf8(c): return z3.If(c < 0x80, 1, z3.If(c < 0x800, 2, z3.If(c < 0x10000, 3, 4)))
    def offset(self, k):
        if k == 0: return 0
        return z3.simplify(z3.Sum([SymStr.len_utf8(c) for c in self.chars[:k]]))

class IterObj:
    __slots__ = ('kind', 'src', 'a', 'b', 'clo')
    def __init__(self, kind, src=None, a=0, b=0, clo=None): self.kind, self.src, self.a, self.b, self.clo = kind, src, a, b, clo

class Panic(Exception):
    """a reachable Rust panic (MIR assert failure, model panic). Ends the path."""
class PathAbort(Exception):
    """lasso / recursion / budget: the path does not return"""
    def __init__(self, kind, msg=''): super().__init__(kind + ': ' + msg); self.kind = kind; self.msg = msg

def mk_option(v): return Agg('Option', 0, []) if v is None else Agg('Option', 1, [v])
UNIT = Agg('()', None, [])

def copyval(v):
    if isinstance(v, Agg): return Agg(v.ty, v.disc, [copyval(x) for x in v.f])
    return v

INT_BITS = {'u8': 8, 'u16': 16, 'u32': 32, 'u64': 64, 'usize': 64, 'u128': 128,
            'i8': 8, 'i16': 16, 'i32': 32, 'i64': 64, 'isize': 64, 'i128': 128}

class Types:
    """enum variant order and struct field order, read from Rust sources"""
    def __init__(self):
        self.enums = {'Option': ['None', 'Some'], 'Result': ['Ok', 'Err'], 'Ordering': ['Less', 'Equal', 'Greater'],
                      'ControlFlow': ['Continue', 'Break']}
        self.enum_disc = {'Ordering': [-1, 0, 1]}
        self.structs = {'Range': ['start', 'end'], 'RangeTo': ['end'], 'RangeFrom': ['start'], 'RangeInclusive': ['start', 'end', 'exhausted']}

    def load(self, paths):
        for p in paths:
            txt = open(p, encoding='utf-8').read()
            txt = re.sub(r'(?m)^\s*//[^\n]*', '', txt)
            txt = strip_attrs(txt)
            for m in re.finditer(r'\benum (\w+)\s*(?:<[^>{]*>)?\s*\{', txt):
                body = balanced(txt, m.end() - 1)
                vs = [re.match(r'\s*(\w+)', x) for x in split_top(body)]
                self.enums[m.group(1)] = [v.group(1) for v in vs if v]
            for m in re.finditer(r'\bstruct (\w+)\s*(?:<[^>{]*>)?\s*\{', txt):
                body = balanced(txt, m.end() - 1)
                fs = []
                for x in split_top(body):
                    mm = re.match(r'\s*(?:pub(?:\([^)]*\))?\s+)?(\w+)\s*:', x)
                    if mm: fs.append(mm.group(1))
                self.structs[m.group(1)] = fs

def strip_attrs(txt):
    out = []; i = 0; n = len(txt)
    while i < n:
        if txt.startswith('#[', i):
            d = 0; j = i + 1; instr = False
            while True:
                c = txt[j]
                if instr:
                    if c == '\\': j += 1
                    elif c == '"': instr = False
                elif c == '"': instr = True
                elif c == '[': d += 1
                elif c == ']':
                    d -= 1
                    if d == 0: break
                j += 1
            i = j + 1; continue
        out.append(txt[i]); i += 1
    return ''.join(out)

def balanced(txt, i):
    d = 0; j = i
    while True:
        if txt[j] == '{': d += 1
        elif txt[j] == '}':
            d -= 1
            if d == 0: return txt[i+1:j]
        j += 1

def match_paren(s, i):
    d = 0
    for j in range(i, len(s)):
        if s[j] in '([': d += 1
        elif s[j] in ')]':
            d -= 1
            if d == 0: return j
    raise ValueError(s)

def unescape(s):
    if '\\' not in s: return s
    out = []; i = 0
    while i < len(s):
        c = s[i]
        if c == '\\':
            n = s[i+1]
            if n == 'n': out.append('\n'); i += 2
            elif n == 't': out.append('\t'); i += 2
            elif n == 'r': out.append('\r'); i += 2
            elif n == '0': out.append('\0'); i += 2
            elif n == 'u':
                j = s.index('}', i); out.append(chr(int(s[i+3:j], 16))); i = j + 1
            elif n == 'x': out.append(chr(int(s[i+2:i+4], 16))); i += 4
            else: out.append(n); i += 2
        else: out.append(c); i += 1
    return ''.join(out)

IGNORE = ('StorageLive', 'StorageDead', 'nop', 'FakeRead', 'PlaceMention', 'Retag', 'AscribeUserType', 'Coverage',
          'ConstEvalCounter', 'Deinit', 'BackwardIncompatibleDropHint')

BINOPS = {'Add', 'Sub', 'Mul', 'Eq', 'Ne', 'Lt', 'Le', 'Gt', 'Ge', 'BitAnd', 'BitOr', 'BitXor', 'AddWithOverflow',
          'SubWithOverflow', 'MulWithOverflow', 'Div', 'Rem', 'Shl', 'Shr', 'AddUnchecked', 'SubUnchecked', 'MulUnchecked',
          'Offset', 'Cmp'}

# ---------------------------------------------------------------- frames
class Frame:
    __slots__ = ('fn', 'L', 'bb', 'ip', 'ops', 'dest', 'retbb', 'tyargs', 'post', 'args')
    def __init__(self, fn):
        self.fn = fn; self.L = [None] * (fn.nlocals + 1); self.bb = 0; self.ip = 0; self.ops = None
        self.dest = None; self.retbb = None; self.tyargs = None; self.post = None; self.args = None

class Machine:
    MAX_STEPS = 400_000
    MAX_DEPTH = 300

    def __init__(self, prog, types, models):
        self.prog, self.types, self.models = prog, types, models
        self.stack = []
        self.steps = 0
        self.retval = None
        self.fn_used = set()
        self.models_used = set()
        self.hooks = {}        # fn key -> callable(machine, fn, args)           (on entry)
        self.post_hooks = {}   # fn key -> callable(machine, fn, args, retval)   (on return)
        self.intercepts = {}   # callee base name -> callable(machine, args, raw) (replaces the call)
        self.loop_seen = None
        self.loop_key = None   # callable(machine, frame) -> hashable or None
        self.const_cache = {}

    # ------------------------------------------------------------ compile
    def compile_block(self, fn, bb):
        ops = []
        for s in fn.blocks[bb]:
            op = self.compile_stmt(fn, s)
            if op is not None: ops.append(op)
        fn.compiled[bb] = ops
        return ops

    def compile_stmt(self, fn, s):
        if s == 'return;': return ('ret',)
        if s.startswith('goto -> '): return ('goto', int(s[10:-1]))
        if s.startswith('switchInt('):
            m = re.match(r'^switchInt\((.*)\) -> \[(.*)\];$', s)
            targets = []
            for x in m.group(2).split(', '):
                val, bb = x.split(': ')
                targets.append((None if val == 'otherwise' else int(val), int(bb[2:])))
            return ('sw', self.c_operand(fn, m.group(1)), targets)
        if s.startswith('assert('):
            m = re.match(r'^assert\((!?)(.*?), "(.*)"(.*)\) -> \[success: bb(\d+), .*\];$', s)
            if not m: raise Unsupported('assert ' + s)
            return ('assert', bool(m.group(1)), self.c_operand(fn, m.group(2)), m.group(3), int(m.group(5)))
        if s.startswith('drop('):
            m = re.search(r'-> \[return: bb(\d+)', s); return ('goto', int(m.group(1)))
        if s == 'unreachable;': return ('unreachable',)
        if s.startswith('resume') or s.startswith('unwind '): return ('unreachable',)
        if s.startswith(IGNORE): return None
        k = s.find(' -> [return: bb')
        if k < 0:
            mm = re.search(r'\) -> (unwind \w+|bb\d+);$', s)
            if mm and ' = ' in s and re.match(r'^[^=]* = [^(]*\(', s) and not s.split(' = ', 1)[1].startswith(('(', '[', '&', 'copy', 'move', 'const')):
                # diverging call (e.g. panic helpers)
                return ('diverge', s)
        if k >= 0:
            retbb = int(re.match(r'\d+', s[k+15:]).group(0))
            body = s[:k]
            mb = mask_strings(body)
            d = 0
            for j in range(len(body) - 1, -1, -1):
                if mb[j] == ')': d += 1
                elif mb[j] == '(':
                    d -= 1
                    if d == 0: break
            argstr = body[j+1:-1]; head = body[:j]
            dest_s, callee = head.split(' = ', 1)
            args = [self.c_operand(fn, a) for a in split_top(argstr)] if argstr.strip() else []
            return ('call', self.c_place(fn, dest_s), callee.strip(), args, retbb, [None])
        if not s.endswith(';') or ' = ' not in s: raise Unsupported('stmt ' + s)
        dest_s, rv = s[:-1].split(' = ', 1)
        dty = None
        mm = re.fullmatch(r'_(\d+)', dest_s.strip())
        if mm: dty = fn.ltypes.get(int(mm.group(1)))
        return ('asg', self.c_place(fn, dest_s), self.c_rvalue(fn, rv, dty))

    # places: compiled to nested tuples, evaluated by place_ref
    def c_place(self, fn, s):
        s = s.strip()
        m = re.fullmatch(r'_(\d+)', s)
        if m: return ('local', int(m.group(1)))
        if s.endswith(']'):
            d = 0
            for j in range(len(s) - 1, -1, -1):
                if s[j] == ']': d += 1
                elif s[j] == '[':
                    d -= 1
                    if d == 0: break
            base = self.c_place(fn, s[:j]); idx = s[j+1:-1]
            mm = re.fullmatch(r'_(\d+)', idx)
            if mm: return ('index', base, int(mm.group(1)))
            mm = re.fullmatch(r'(\d+) of (\d+)', idx)
            if mm: return ('cindex', base, int(mm.group(1)))
            mm = re.fullmatch(r'-(\d+) of (\d+)', idx)
            if mm: return ('cindex_end', base, int(mm.group(1)))
            raise Unsupported('index ' + s)
        if s[0] == '(' and match_paren(s, 0) == len(s) - 1:
            inner = s[1:-1]
            if inner[0] == '*': return ('deref', self.c_place(fn, inner[1:]))
            if inner[0] == '(':
                k = match_paren(inner, 0); base, rest = inner[:k+1], inner[k+1:]
            else:
                mm = re.match(r'(_\d+)(.*)$', inner, re.S); base, rest = mm.group(1), mm.group(2)
            mm = re.match(r'^\.(\d+): ', rest)
            if mm: return ('field', self.c_place(fn, base), int(mm.group(1)))
            mm = re.match(r'^ as (\w+)$', rest)
            if mm: return ('downcast', self.c_place(fn, base), mm.group(1))
            raise Unsupported('place ' + s)
        raise Unsupported('place ' + s)

    def c_operand(self, fn, s):
        s = s.strip()
        if s.startswith('no_retag '): s = s[9:]
        if s.startswith('copy '): return ('copy', self.c_place(fn, s[5:]))
        if s.startswith('move '): return ('move', self.c_place(fn, s[5:]))
        if s.startswith('const '): return ('const', s[6:].strip(), fn)
        raise Unsupported('operand ' + s)

    def c_rvalue(self, fn, s, dty):
        s = s.strip()
        if s.startswith('&mut '): return ('ref', self.c_place(fn, s[5:]))
        if s.startswith('&raw '): return ('ref', self.c_place(fn, s.split(' ', 2)[2]))
        if s.startswith('&'): return ('ref', self.c_place(fn, s[1:]))
        m = re.match(r'^(\w+)\((.*)\)$', s, re.S)
        if m:
            k = m.group(1)
            if k == 'discriminant': return ('disc', self.c_place(fn, m.group(2)))
            if k in BINOPS:
                a, b = [self.c_operand(fn, x) for x in split_top(m.group(2))]
                ity = None
                if dty:
                    t = dty.strip()
                    if t.startswith('('): t = t[1:].split(',')[0]
                    ity = t if t in INT_BITS else None
                if ity is None:
                    for x in split_top(m.group(2)):
                        mm = re.search(r'_(usize|u8|u16|u32|u64|isize|i8|i16|i32|i64|u128|i128)$', x)
                        if mm: ity = mm.group(1)
                return ('bin', k, a, b, ity)
            if k == 'Not': return ('not', self.c_operand(fn, m.group(2)))
            if k == 'Neg': return ('neg', self.c_operand(fn, m.group(2)))
            if k == 'PtrMetadata': return ('ptrmeta', self.c_operand(fn, m.group(2)))
            if k == 'Len': return ('len', self.c_place(fn, m.group(2)))
        m2 = re.match(r'^(copy|move|const) (.*) as (.*) \((IntToInt|IntToFloat|FloatToInt|FloatToFloat|PtrToPtr|FnPtrToPtr|Transmute|Subtype|PointerExposeProvenance|PointerWithExposedProvenance|PointerExposeAddress|PointerCoercion)(?:\(.*\))?(?:, \w+)?\)$', s, re.S)
        if m2:
            return ('cast', self.c_operand(fn, m2.group(1) + ' ' + m2.group(2)), m2.group(3).strip(), m2.group(4))
        if s.startswith(('copy ', 'move ', 'const ', 'no_retag ')): return ('use', self.c_operand(fn, s))
        return self.c_aggregate(fn, s)

    def c_aggregate(self, fn, s):
        T = self.types
        if s.startswith('(') and s.endswith(')'):
            return ('agg', 'tuple', None, [self.c_operand(fn, x) for x in split_top(s[1:-1])])
        if s.startswith('['):
            inner = s[1:-1]
            parts = split_top(inner, ';')
            if len(parts) == 2 and not split_top(inner)[1:]:
                cnt = parts[1].strip()
                mm = re.fullmatch(r'(?:const )?(\d+)(?:_usize)?', cnt)
                if not mm: raise Unsupported('array repeat ' + s)
                return ('repeat', self.c_operand(fn, parts[0]), int(mm.group(1)))
            return ('agg', 'array', None, [self.c_operand(fn, x) for x in split_top(inner)])
        if s.startswith('{closure@'):
            k = s.index('}') + 1
            name, rest = s[:k], s[k:].strip()
            fields = []
            if rest.startswith('{'):
                for x in split_top(rest[1:-1].strip()):
                    fields.append(self.c_operand(fn, x.split(':', 1)[1]))
            return ('closure', name, fields)
        m = re.match(r'^([^({]+?)\s*\{(.*)\}$', s, re.S)
        if m:
            path = strip_generics(m.group(1).strip()); parts = path.split('::')
            if len(parts) >= 2 and parts[-2] in T.enums and parts[-1] in T.enums[parts[-2]]:
                raise Unsupported('struct-like enum variant ' + s)
            ty = parts[-1]; names = T.structs.get(ty)
            if names is None: raise Unsupported('struct ' + ty)
            vals = {}
            for x in split_top(m.group(2).strip()):
                n, v = x.split(':', 1); vals[n.strip()] = self.c_operand(fn, v)
            missing = [n for n in names if n not in vals]
            if missing: raise Unsupported(f'struct {ty} fields {missing}')
            return ('agg', ty, None, [vals[n] for n in names])
        args = []
        if s.endswith(')'):
            d = 0
            for j in range(len(s) - 1, -1, -1):
                if s[j] == ')': d += 1
                elif s[j] == '(':
                    d -= 1
                    if d == 0: break
            path, args = s[:j], [self.c_operand(fn, x) for x in split_top(s[j+1:-1])]
            tuple_like = True
        else:
            path = s; tuple_like = False
        parts = strip_generics(path).split('::')
        if len(parts) >= 2 and parts[-2] in T.enums and parts[-1] in T.enums[parts[-2]]:
            return ('agg', parts[-2], T.enums[parts[-2]].index(parts[-1]), args)
        if tuple_like or parts[-1] in T.structs: return ('agg', parts[-1], None, args)
        if len(parts) >= 2 and parts[-1][:1].isupper() and parts[-2][:1].isupper():
            # unit variant of an enum of an external crate (variant order unknown): the tag is the variant name itself;
            # a switchInt on such a value is refused at run time (int() of a string fails closed)
            return ('agg', parts[-2], 'variant:' + parts[-1], [])
        raise Unsupported('aggregate ' + s)

    # ------------------------------------------------------------ evaluation
    def place_ref(self, fr, p):
        k = p[0]
        if k == 'local': return Ref(fr.L, p[1])
        if k == 'field':
            v = self.place_ref(fr, p[1]).get()
            if v.__class__ is not Agg: raise Unsupported(f'field of {v!r}')
            return Ref(v.f, p[2])
        if k == 'deref':
            v = self.place_ref(fr, p[1]).get()
            if v.__class__ is Ref: return v
            if isinstance(v, (SliceRef, str, IterObj, SymStr)): return Ref([v], 0)
            raise Unsupported(f'deref of {v!r}')
        if k == 'downcast': return self.place_ref(fr, p[1])
        if k == 'index' or k == 'cindex' or k == 'cindex_end':
            v = self.place_ref(fr, p[1]).get()
            i = fr.L[p[2]] if k == 'index' else p[2]
            if v.__class__ is Agg:
                if k == 'cindex_end': i = len(v.f) - i
                if not 0 <= i < len(v.f): raise Panic('index out of bounds (array)')
                return Ref(v.f, i)
            if v.__class__ is SliceRef:
                if k == 'cindex_end': i = (v.hi - v.lo) - i
                if isinstance(i, Sym): raise Unsupported('symbolic index')
                if not (0 <= i < v.hi - v.lo): raise Panic(f'index out of bounds: the len is {v.hi - v.lo} but the index is {i}')
                return Ref(v.items, v.lo + i)
            raise Unsupported(f'index of {v!r}')
        raise Unsupported(str(p))

    def operand(self, fr, o):
        k = o[0]
        if k == 'copy':
            p = o[1]
            v = fr.L[p[1]] if p[0] == 'local' else self.place_ref(fr, p).get()
            if v.__class__ is Agg: return copyval(v)
            return v
        if k == 'move':
            p = o[1]
            return fr.L[p[1]] if p[0] == 'local' else self.place_ref(fr, p).get()
        if fr.tyargs and 'closure@' in o[1]:
            v = self._const(o[1], o[2], fr)
            v.ty = v.ty + '|' + ';'.join(f'{a}={b}' for a, b in sorted(fr.tyargs.items()))
            return v
        return self.const(o[1], o[2], fr)

    def const(self, c, fn, fr=None):
        key = c
        hit = self.const_cache.get(key)
        if hit is not None:
            v, fresh = hit
            return copyval(v) if fresh else v
        v = self._const(c, fn, fr)
        if isinstance(v, (int, bool, str)): self.const_cache[key] = (v, False)
        elif isinstance(v, Agg) and not any(isinstance(x, (Ref, VecObj)) for x in v.f): self.const_cache[key] = (v, True); return copyval(v)
        return v

    def _const(self, c, fn, fr):
        T = self.types
        if c == 'true': return True
        if c == 'false': return False
        m = re.fullmatch(r'(-?\d+)_(usize|u8|u16|u32|u64|isize|i8|i16|i32|i64|u128|i128)', c)
        if m: return int(m.group(1))
        if c.startswith('"'): return unescape(c[1:-1])
        if c.startswith('b"'): return Agg('array', None, [ord(x) for x in unescape(c[2:-1])])
        if c.startswith('ZeroSized: '):
            t = c[11:]
            if 'closure@' in t: return Agg(re.search(r'\{closure@[^}]*\}', t).group(0), None, [])
            return Agg('ZST:' + t, None, [])
        if c == '()': return UNIT
        m = re.fullmatch(r"'(.)'", c)
        if m: return ord(m.group(1))
        m = re.fullmatch(r"'\\u\{([0-9a-fA-F]+)\}'", c)
        if m: return int(m.group(1), 16)
        m = re.fullmatch(r"'\\(.)'", c)
        if m: return ord({'n': '\n', 't': '\t', 'r': '\r', '0': '\0'}.get(m.group(1), m.group(1)))
        if c.endswith(']') and 'promoted[' in c:
            mp = re.search(r'([\w#{}]+)::(promoted\[\d+\])$', c)
            suffix = f'::{mp.group(1)}::{mp.group(2)}'
            cands = [fl[-1] for n, fl in self.prog.fns.items() if n.endswith(suffix) or n == suffix[2:]]
            if len(cands) > 1:
                # disambiguate by the enclosing function's own name
                own = fn.name + '::' + mp.group(2)
                cands = [f for f in cands if f.name == own] or cands
            if len(cands) != 1: raise Unsupported('promoted ' + c)
            return self.call(cands[0], [])
        if c in ('core::num::<impl usize>::MAX', 'usize::MAX'): return (1 << 64) - 1
        sc = strip_generics(c)
        parts = sc.split('::')
        if len(parts) >= 2 and parts[-2] in T.enums and parts[-1] in T.enums[parts[-2]]:
            return Agg(parts[-2], T.enums[parts[-2]].index(parts[-1]), [])
        # associated / free consts with their own MIR body
        f = self.prog.lookup_suffix(sc)
        if f is None and len(parts) >= 2:
            f = self.prog.byname.get(f'{parts[-2]}::{parts[-1]}')
        if f is not None and not f.params: return self.call(f, [])
        if sc in self.prog.consts: return self._const(self.prog.consts[sc], fn, fr)
        for k, v in self.prog.consts.items():
            if k.endswith('::' + parts[-1]) or k == parts[-1]: return self._const(v, fn, fr)
        raise Unsupported('const ' + c)

    def rvalue(self, fr, r):
        k = r[0]
        if k == 'use': return self.operand(fr, r[1])
        if k == 'ref': return self.place_ref(fr, r[1])
        if k == 'bin': return self.binop(r[1], self.operand(fr, r[2]), self.operand(fr, r[3]), r[4])
        if k == 'disc':
            v = self.place_ref(fr, r[1]).get()
            if v.__class__ is not Agg: raise Unsupported(f'discriminant of {v!r}')
            d = v.disc
            if d.__class__ is int and v.ty in self.types.enum_disc: return self.types.enum_disc[v.ty][d]
            if d is None: raise Unsupported(f'discriminant of non-enum {v!r}')
            return d
        if k == 'agg': return Agg(r[1], r[2], [self.operand(fr, x) for x in r[3]])
        if k == 'closure':
            tag = r[1] + ('|' + ';'.join(f'{a}={b}' for a, b in sorted(fr.tyargs.items())) if fr.tyargs else '')
            return Agg(tag, None, [self.operand(fr, x) for x in r[2]])
        if k == 'repeat':
            v = self.operand(fr, r[1]); return Agg('array', None, [copyval(v) for _ in range(r[2])])
        if k == 'cast':
            v = self.operand(fr, r[1]); kind = r[3]
            if kind == 'IntToInt':
                if isinstance(v, bool): v = int(v)
                if isinstance(v, int):
                    bits = INT_BITS.get(r[2])
                    if bits:
                        v &= (1 << bits) - 1
                        if r[2][0] == 'i' and v >> (bits - 1): v -= 1 << bits
                return v
            if kind in ('PointerCoercion', 'Transmute', 'PtrToPtr', 'PointerExposeAddress', 'Subtype'):
                if kind == 'PointerCoercion' and isinstance(v, Ref):
                    t = v.get()
                    if isinstance(t, Agg) and t.ty == 'array' and '[' in r[2] and ';' not in r[2]: return SliceRef(t.f, 0, len(t.f))
                return v
            raise Unsupported('cast ' + kind)
        if k == 'not':
            a = self.operand(fr, r[1])
            if a.__class__ is Sym: return Sym(z3.Not(a.e))
            if isinstance(a, bool): return not a
            raise Unsupported('Not on integer')
        if k == 'neg':
            a = self.operand(fr, r[1])
            if a.__class__ is Sym: return Sym(-a.e)
            return -a
        if k == 'ptrmeta':
            a = self.operand(fr, r[1])
            if a.__class__ is SliceRef: return a.hi - a.lo
            if isinstance(a, str): return len(a.encode())
            if a.__class__ is Ref:
                t = a.get()
                if isinstance(t, Agg) and t.ty == 'array': return len(t.f)
                if isinstance(t, VecObj): return len(t.items)
            raise Unsupported('PtrMetadata')
        if k == 'len':
            v = self.place_ref(fr, r[1]).get()
            return v.hi - v.lo if v.__class__ is SliceRef else len(v.f)
        raise Unsupported('rvalue ' + str(r))

    def binop(self, op, a, b, ity):
        if a.__class__ is Sym or b.__class__ is Sym:
            def ex(x):
                if x.__class__ is Sym: return x.e
                if isinstance(x, bool): return z3.BoolVal(x)
                return z3.IntVal(x)
            ea, eb = ex(a), ex(b)
            if op == 'Eq': r = ea == eb
            elif op == 'Ne': r = ea != eb
            elif op == 'Lt': r = ea < eb
            elif op == 'Le': r = ea <= eb
            elif op == 'Gt': r = ea > eb
            elif op == 'Ge': r = ea >= eb
            elif op == 'BitAnd' and z3.is_bool(ea) and z3.is_bool(eb): r = z3.And(ea, eb)
            elif op == 'BitOr' and z3.is_bool(ea) and z3.is_bool(eb): r = z3.Or(ea, eb)
            elif op == 'BitXor' and z3.is_bool(ea) and z3.is_bool(eb): r = z3.Xor(ea, eb)
            elif op in ('Add', 'AddUnchecked') and z3.is_int(ea) and z3.is_int(eb): r = ea + eb
            elif op in ('Sub', 'SubUnchecked') and z3.is_int(ea) and z3.is_int(eb): r = ea - eb
            elif op.endswith('WithOverflow') and z3.is_int(ea) and z3.is_int(eb):
                # mathematical integers + explicit overflow flag (the flag is what the following assert branches on)
                bits = INT_BITS.get(ity or 'usize', 64); signed = bool(ity) and ity[0] == 'i'
                lo, hi = (-(1 << (bits - 1)), (1 << (bits - 1)) - 1) if signed else (0, (1 << bits) - 1)
                v = ea + eb if op[0] == 'A' else (ea - eb if op[0] == 'S' else ea * eb)
                return Agg('tuple', None, [Sym(z3.simplify(v)), Sym(z3.simplify(z3.Or(v < lo, v > hi)))])
            else: raise Unsupported('symbolic ' + op)
            return Sym(z3.simplify(r))
        if isinstance(a, Agg) or isinstance(b, Agg): raise Unsupported(f'binop {op} on aggregate')
        bits = INT_BITS.get(ity or 'usize', 64); signed = bool(ity) and ity[0] == 'i'
        lo, hi = (-(1 << (bits - 1)), (1 << (bits - 1)) - 1) if signed else (0, (1 << bits) - 1)
        def wrap(r):
            r &= (1 << bits) - 1
            if signed and r >> (bits - 1): r -= 1 << bits
            return r
        if op.endswith('WithOverflow'):
            r = a + b if op[0] == 'A' else (a - b if op[0] == 'S' else a * b)
            return Agg('tuple', None, [wrap(r), not (lo <= r <= hi)])
        if op == 'Eq': return a == b
        if op == 'Ne': return a != b
        if op == 'Lt': return a < b
        if op == 'Le': return a <= b
        if op == 'Gt': return a > b
        if op == 'Ge': return a >= b
        if isinstance(a, bool) and isinstance(b, bool):
            if op == 'BitAnd': return a and b
            if op == 'BitOr': return a or b
            if op == 'BitXor': return a != b
        if op in ('Add', 'AddUnchecked'): return wrap(a + b)
        if op in ('Sub', 'SubUnchecked'): return wrap(a - b)
        if op in ('Mul', 'MulUnchecked'): return wrap(a * b)
        if op == 'BitAnd': return a & b
        if op == 'BitOr': return a | b
        if op == 'BitXor': return a ^ b
        if op == 'Div':
            if b == 0: raise Panic('attempt to divide by zero')
            q = abs(a) // abs(b); return q if (a >= 0) == (b >= 0) else -q
        if op == 'Rem':
            if b == 0: raise Panic('attempt to calculate the remainder with a divisor of zero')
            r = abs(a) % abs(b); return r if a >= 0 else -r
        if op == 'Shl': return wrap(a << (b % bits))
        if op == 'Shr': return a >> (b % bits)
        if op == 'Cmp': return Agg('Ordering', 0 if a < b else (1 if a == b else 2), [])
        raise Unsupported('binop ' + op)

    # ------------------------------------------------------------ symbolic choice (overridden by Run)
    def choose(self, options):
        raise Unsupported('symbolic branch without a solver')

    # ------------------------------------------------------------ calls
    def call(self, fn, args, tyargs=None):
        depth = len(self.stack)
        self.push(fn, args, None, None, tyargs)
        while len(self.stack) > depth:
            self.step()
        return self.retval

    def push(self, fn, args, dest, retbb, tyargs=None):
        if len(self.stack) >= self.MAX_DEPTH: raise PathAbort('recursion', f'call depth {len(self.stack)} at {fn.key}')
        fr = Frame(fn); fr.dest = dest; fr.retbb = retbb; fr.tyargs = tyargs
        L = fr.L
        for i, a in enumerate(args): L[i + 1] = a
        ops = fn.compiled.get(0)
        if ops is None: ops = self.compile_block(fn, 0)
        fr.ops = ops
        self.stack.append(fr)
        self.fn_used.add(fn.key)
        h = self.hooks.get(fn.key)
        if h is not None: h(self, fn, args)
        ph = self.post_hooks.get(fn.key)
        if ph is not None: fr.post = ph; fr.args = list(args)

    def jump(self, fr, bb):
        if bb <= fr.bb and self.loop_key is not None:
            key = self.loop_key(self, fr, bb)
            if key is not None:
                if key in self.loop_seen:
                    self.cycle = (self.loop_seen[key], getattr(self, 'nd', 0))      # environment answers consumed by one round of the cycle
                    raise PathAbort('lasso', f'{fr.fn.key} bb{bb} state repeats without progress')
                self.loop_seen[key] = getattr(self, 'nd', 0)
        fr.bb = bb; fr.ip = 0
        ops = fr.fn.compiled.get(bb)
        if ops is None: ops = self.compile_block(fr.fn, bb)
        fr.ops = ops

    def step(self):
        fr = self.stack[-1]
        op = fr.ops[fr.ip]; fr.ip += 1
        self.steps += 1
        if self.steps > self.MAX_STEPS: raise PathAbort('budget', f'{self.steps} MIR steps')
        k = op[0]
        if k == 'asg':
            v = self.rvalue(fr, op[2])
            p = op[1]
            if p[0] == 'local': fr.L[p[1]] = v
            else: self.place_ref(fr, p).set(v)
            return
        if k == 'call':
            args = [self.operand(fr, a) for a in op[3]]
            self.do_call(fr, op, args)
            return
        if k == 'sw':
            v = self.operand(fr, op[1])
            if v.__class__ is Sym:
                self.jump(fr, self.sym_switch(v, op[2])); return
            iv = int(v)
            for val, bb in op[2]:
                if val is None or val == iv:
                    self.jump(fr, bb); return
            raise Unsupported('switch fallthrough')
        if k == 'goto':
            self.jump(fr, op[1]); return
        if k == 'ret':
            self.stack.pop()
            v = fr.L[0]
            if v is None: v = UNIT
            self.retval = v
            if fr.post is not None: fr.post(self, fr.fn, fr.args, v)
            if fr.dest is not None:
                fr.dest.set(v)
                self.jump(self.stack[-1], fr.retbb)
            return
        if k == 'assert':
            v = self.operand(fr, op[2])
            if v.__class__ is Sym:
                ok = self.choose([(z3.Not(v.e) if op[1] else v.e, True), (v.e if op[1] else z3.Not(v.e), False)])
            else:
                ok = (not v) if op[1] else bool(v)
            if not ok: raise Panic(op[3])
            self.jump(fr, op[4]); return
        if k == 'unreachable': raise Unsupported(f'reached unreachable in {fr.fn.key} bb{fr.bb}')
        if k == 'diverge':
            s = op[1]
            if 'panic' in s or 'unwrap_failed' in s or 'expect_failed' in s or 'unreachable' in s or 'slice_index' in s or 'slice_start' in s or 'slice_end' in s:
                raise Panic('diverging call: ' + s[:160])
            raise Unsupported('diverging call ' + s[:120])
        raise Unsupported('op ' + str(op))

    def sym_switch(self, v, targets):
        """group targets by destination block, build one option per distinct block"""
        e = v.e; isb = z3.is_bool(e)
        groups = {}; order = []; explicit = []
        for val, bb in targets:
            if val is None: continue
            c = (e if val else z3.Not(e)) if isb else (e == val)
            explicit.append(c)
            if bb not in groups: groups[bb] = []; order.append(bb)
            groups[bb].append(c)
        opts = []
        for bb in order:
            cs = groups[bb]
            opts.append((cs[0] if len(cs) == 1 else z3.Or(*cs), bb))
        for val, bb in targets:
            if val is None:
                neg = z3.And(*[z3.Not(c) for c in explicit]) if explicit else z3.BoolVal(True)
                if bb in groups:
                    i = order.index(bb); opts[i] = (z3.Or(opts[i][0], neg), bb)
                else:
                    opts.append((neg, bb))
        return self.choose(opts)

    # callee resolution ------------------------------------------------
    def parse_callee(self, callee):
        """-> (type, trait, method, raw, tyargs)"""
        if callee.startswith('<'):
            k = match_angle(callee, 0)
            inner = callee[1:k]; rest = callee[k+3:]
            meth = strip_generics(rest)
            ta = self.turbofish(rest)
            if ' as ' in inner:
                ty, tr = split_as(inner)
                return base_name(ty), base_name(tr), meth, callee, ta, ty.strip()
            return base_name(inner), None, meth, callee, ta, inner
        mi = re.search(r'<impl ([^\[\]]*?)>::(\w+)(?:::<.*>)?$', callee)
        if mi and f'{base_name(mi.group(1))}::{mi.group(2)}' in self.prog.byname:
            return base_name(mi.group(1)), None, mi.group(2), callee, self.turbofish(callee), f'{base_name(mi.group(1))}::{mi.group(2)}'
        n = strip_generics(callee)
        parts = n.split('::')
        ty = parts[-2] if len(parts) > 1 else None
        return ty, None, parts[-1], callee, self.turbofish(callee), n

    @staticmethod
    def turbofish(s):
        """generic args of the LAST path segment: foo::<A, B>  -> ['A', 'B']"""
        s = s.strip()
        if not s.endswith('>'): return None
        d = 0
        for j in range(len(s) - 1, -1, -1):
            if s[j] == '>' and s[j-1] != '-': d += 1
            elif s[j] == '<':
                d -= 1
                if d == 0: break
        if j >= 2 and s[j-2:j] == '::': return split_top(s[j+1:-1])
        return None

    def do_call(self, fr, op, args):
        callee = op[2]
        cache = op[5]
        res = cache[0]
        if res is None:
            res = cache[0] = self.resolve(fr, callee)
        kind = res[0]
        if kind == 'fn':
            f = res[1]
            ta = res[2]
            if ta is not None and fr.tyargs:
                ta = [fr.tyargs.get(x, x) for x in ta]
            tyb = None
            if ta is not None and f.generics is not None:
                tyb = self.bind_generics(f, ta, fr)
            self.push(f, args, self.place_ref(fr, op[1]), op[4], tyb)
            return
        if kind == 'model':
            self.models_used.add(res[2])
            v = res[1](self, args, callee)
            self.place_ref(fr, op[1]).set(v); self.jump(fr, op[4])
            return
        if kind == 'intercept':
            self.models_used.add('intercept:' + res[1])
            v = self.intercepts[res[1]](self, args, callee)
            self.place_ref(fr, op[1]).set(v); self.jump(fr, op[4])
            return
        if kind == 'dyn':     # depends on frame type bindings: resolve each time
            r2 = self.resolve(fr, callee, use_tyargs=True)
            if r2[0] == 'fn':
                self.push(r2[1], args, self.place_ref(fr, op[1]), op[4], None); return
            if r2[0] == 'model':
                self.models_used.add(r2[2])
                v = r2[1](self, args, callee); self.place_ref(fr, op[1]).set(v); self.jump(fr, op[4]); return
        raise Unsupported(f'no model for {callee}')

    def bind_generics(self, f, ta, fr):
        names = self.fn_generic_names(f)
        if not names: return dict(fr.tyargs) if fr.tyargs else None
        b = dict(fr.tyargs) if fr.tyargs else {}
        for n, a in zip(names, ta): b[n] = a
        return b

    def fn_generic_names(self, f):
        g = getattr(f, '_gnames', None) if hasattr(f, '_gnames') else None
        cache = self.__dict__.setdefault('_gn', {})
        if f.name in cache: return cache[f.name]
        names = []
        meth = f.name.split('::')[-1]
        file = getattr(f, 'file', None)
        if file:
            try:
                for line in self.prog.src_lines(file):
                    mm = re.search(r'\bfn ' + re.escape(meth) + r'\s*<([^>]*)>', line)
                    if mm:
                        names = [x.strip().split(':')[0].strip() for x in mm.group(1).split(',') if x.strip() and not x.strip().startswith("'")]
                        break
            except OSError: pass
        cache[f.name] = names
        return names

    def resolve(self, fr, callee, use_tyargs=False):
        ty, tr, meth, raw, ta, fullty = self.parse_callee(callee)
        B = self.prog.byname
        icp = self.intercepts.get(meth) or self.intercepts.get(f'{ty}::{meth}')
        if icp is not None: return ('intercept', meth if meth in self.intercepts else f'{ty}::{meth}')
        if fr.tyargs and ty in fr.tyargs:
            if not use_tyargs: return ('dyn',)
            ty = base_name(fr.tyargs[ty])
        cands = []
        if tr:
            cands += [f"<{ty} as {tr}>::{meth}"]
            if tr == 'Into':
                tgt = re.search(r' as Into<(.*)>>::into$', raw)
                if tgt: cands.append(f"<{base_name(tgt.group(1))} as From>::from")
        elif ty: cands += [f"{ty}::{meth}"]
        for c in cands:
            f = B.get(c)
            if f is not None: return ('fn', f, ta)
        # std models before trait default methods / free functions with the same short name
        mkeys = []
        if tr: mkeys += [f"<{ty} as {tr}>::{meth}", f"{tr}::{meth}"]
        if ty: mkeys += [f"{ty}::{meth}"]
        if not ty and not tr: mkeys.append(meth)
        for mk in mkeys:
            mod = self.models.get(mk)
            if mod is not None: return ('model', mod, mk)
        if tr:
            f = B.get(f"{tr}::{meth}")      # trait default method
            if f is not None: return ('fn', f, ta)
        n = strip_generics(callee)
        f = self.prog.lookup_suffix(n)
        if f is not None and not callee.startswith('<'): return ('fn', f, ta)
        if not callee.startswith('<'):
            # Type::<'_>::method with module prefix
            parts = n.split('::')
            if len(parts) >= 2:
                f = B.get(f"{parts[-2]}::{parts[-1]}")
                if f is not None: return ('fn', f, ta)
        raise Unsupported(f'no model for {callee}  [{mkeys}]')

    def call_closure(self, clo, args):
        cm = re.search(r'\{closure@[^}]*\}', clo.ty)
        if not cm: raise Unsupported(f'call of non-closure {clo.ty}')
        f = self.prog.closures.get(cm.group(0))
        if f is None: raise Unsupported('closure body not found ' + clo.ty)
        p0 = f.params[0].split(': ', 1)[1]
        self_arg = Ref([clo], 0) if p0.startswith('&') else clo
        tyb = None
        if '|' in clo.ty:
            tyb = dict(x.split('=', 1) for x in clo.ty.split('|', 1)[1].split(';') if x)
        return self.call(f, [self_arg] + list(args), tyb)

def split_as(inner):
    """split 'Type as Trait' at depth 0"""
    d = 0
    for i in range(len(inner)):
        c = inner[i]
        if c == '<': d += 1
        elif c == '>' and inner[i-1] != '-': d -= 1
        elif d == 0 and inner.startswith(' as ', i): return inner[:i], inner[i+4:]
    return inner, ''
