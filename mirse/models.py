"""std models: the environment of the interpreted code.  Semantics follow the std documentation including the documented
panics.  Every model used in a run is listed in the evidence (trusted base), and per-path native cross-validation
guards them."""
import re
import z3
from .interp import (Sym, Agg, VecObj, Ref, SliceRef, IterObj, SymStr, Panic, Unsupported, UNIT, mk_option, copyval)

def deref(x):
    return x.get() if x.__class__ is Ref else x

def as_slice(x):
    v = deref(x)
    if v.__class__ is VecObj: return SliceRef(v.items, 0, len(v.items))
    if v.__class__ is Agg and v.ty == 'array': return SliceRef(v.f, 0, len(v.f))
    if v.__class__ is SliceRef or isinstance(v, str): return v
    raise Unsupported(f'as_slice of {v!r}')

def _zi(x): return x.e if x.__class__ is Sym else z3.IntVal(x)
def _ge(a, b):
    if a.__class__ is Sym or b.__class__ is Sym:
        e = z3.simplify(_zi(a) >= _zi(b))
        return True if z3.is_true(e) else False if z3.is_false(e) else Sym(e)
    return a >= b
def _sat_sub(a, b):
    if a.__class__ is Sym or b.__class__ is Sym:
        return Sym(z3.simplify(z3.If(_zi(a) >= _zi(b), _zi(a) - _zi(b), z3.IntVal(0))))
    return max(0, a - b)

def truthy(m, r):
    if r.__class__ is Sym:
        return m.choose([(r.e, True), (z3.Not(r.e), False)])
    return bool(r)

# ---------------------------------------------------------------- iterators
def it_next(m, it):
    k = it.kind
    if k == 'slice':
        if it.a >= it.b: return mk_option(None)
        it.a += 1; return mk_option(Ref(it.src, it.a - 1))
    if k == 'range':
        if it.a >= it.b: return mk_option(None)
        it.a += 1; return mk_option(it.a - 1)
    if k == 'vec_values':
        if it.a >= it.b: return mk_option(None)
        it.a += 1; return mk_option(it.src[it.a - 1])
    if k == 'rev': return it_next_back(m, it.src)
    if k == 'skip':
        while it.a > 0:
            it.a -= 1
            if it_next(m, it.src).disc == 0: return mk_option(None)
        return it_next(m, it.src)
    if k == 'take':
        if it.a == 0: return mk_option(None)
        it.a -= 1; return it_next(m, it.src)
    if k == 'enumerate':
        o = it_next(m, it.src)
        if o.disc == 0: return o
        it.a += 1; return mk_option(Agg('tuple', None, [it.a - 1, o.f[0]]))
    if k == 'filter':
        while True:
            o = it_next(m, it.src)
            if o.disc == 0: return o
            if truthy(m, m.call_closure(it.clo, [Ref([o.f[0]], 0)])): return o
    if k == 'map':
        o = it_next(m, it.src)
        if o.disc == 0: return o
        return mk_option(m.call_closure(it.clo, [o.f[0]]))
    if k == 'filter_map':
        while True:
            o = it_next(m, it.src)
            if o.disc == 0: return o
            r = m.call_closure(it.clo, [o.f[0]])
            if r.disc == 1: return r
    if k == 'user':        # an interpreted Iterator impl (e.g. lelwel's CstChildren)
        return m.call(it.src[0], [Ref(it.src[1], 0)])
    if k == 'flatten':
        while True:
            if it.b is not None:
                o = it_next(m, it.b)
                if o.disc == 1: return o
                it.b = None
            o = it_next(m, it.src)
            if o.disc == 0: return o
            it.b = to_iter(m, o.f[0])
    if k == 'option':
        if it.src is None: return mk_option(None)
        v = it.src; it.src = None; return mk_option(v)
    if k == 'chain':
        if it.src is not None:
            o = it_next(m, it.src)
            if o.disc == 1: return o
            it.src = None
        return it_next(m, it.b)
    if k == 'peekable':
        if it.b is not None:
            o = it.b; it.b = None; return o
        return it_next(m, it.src)
    if k == 'sym_char_indices':
        s = it.src
        if it.a >= len(s.chars): return mk_option(None)
        k0 = it.a; it.a += 1
        off = s.offset(k0)
        return mk_option(Agg('tuple', None, [off if isinstance(off, int) else Sym(off), Sym(s.chars[k0])]))
    if k == 'chars':
        s = it.src
        if it.a >= len(s): return mk_option(None)
        it.a += 1; return mk_option(ord(s[it.a - 1]))
    raise Unsupported('next ' + k)

def it_next_back(m, it):
    k = it.kind
    if k == 'slice':
        if it.a >= it.b: return mk_option(None)
        it.b -= 1; return mk_option(Ref(it.src, it.b))
    if k == 'range':
        if it.a >= it.b: return mk_option(None)
        it.b -= 1; return mk_option(it.b)
    if k == 'take':
        # Take<I: ExactSize+DoubleEnded>::next_back: skip the surplus from the back first
        s = it.src
        ln = it_len(s)
        if it.a == 0: return mk_option(None)
        if ln > it.a:
            for _ in range(ln - it.a): it_next_back(m, s)
        it.a -= 1
        return it_next_back(m, s)
    if k == 'rev': return it_next(m, it.src)
    if k == 'filter':
        while True:
            o = it_next_back(m, it.src)
            if o.disc == 0: return o
            if truthy(m, m.call_closure(it.clo, [Ref([o.f[0]], 0)])): return o
    raise Unsupported('next_back ' + k)

def it_len(it):
    if it.kind in ('slice', 'range'): return max(0, it.b - it.a)
    if it.kind == 'take': return min(it.a, it_len(it.src))
    if it.kind == 'skip': return max(0, it_len(it.src) - it.a)
    if it.kind in ('rev', 'enumerate', 'map'): return it_len(it.src)
    raise Unsupported('len of iterator ' + it.kind)

def to_iter(m, v):
    v = deref(v) if v.__class__ is Ref and isinstance(v.get(), (IterObj,)) else v
    if v.__class__ is IterObj: return v
    if v.__class__ is Agg and v.ty == 'Range': return IterObj('range', None, v.f[0], v.f[1])
    if v.__class__ is Agg and v.ty == 'Option': return IterObj('option', v.f[0] if v.disc == 1 else None)
    if v.__class__ is VecObj: return IterObj('vec_values', list(v.items), 0, len(v.items))      # into_iter by value: yields the elements
    if v.__class__ is SliceRef: return IterObj('slice', v.items, v.lo, v.hi)                     # <&[T] as IntoIterator>::into_iter
    if v.__class__ is Agg:
        f = m.prog.byname.get(f'<{v.ty} as Iterator>::next')
        if f is not None: return IterObj('user', (f, [v]))
    if v.__class__ is Ref:
        t = v.get()
        if t.__class__ is VecObj: return IterObj('slice', t.items, 0, len(t.items))
        if t.__class__ is SliceRef: return IterObj('slice', t.items, t.lo, t.hi)
        if t.__class__ is IterObj: return t
        return to_iter(m, t)
    raise Unsupported(f'into_iter of {v!r}')

def iter_arg(m, a):
    """first argument of an Iterator method: iterator by value or &mut iterator"""
    v = a
    if v.__class__ is Ref: v = v.get()
    if v.__class__ is IterObj: return v
    return to_iter(m, v)

def m_nth(m, a, raw):
    it = iter_arg(m, a[0]); n = a[1]
    while True:
        o = it_next(m, it)
        if o.disc == 0 or n == 0: return o
        n -= 1

def m_find_map(m, a, raw):
    it = iter_arg(m, a[0])
    while True:
        o = it_next(m, it)
        if o.disc == 0: return o
        r = m.call_closure(a[1], [o.f[0]])
        if r.disc == 1: return r

def m_find(m, a, raw):
    it = iter_arg(m, a[0])
    while True:
        o = it_next(m, it)
        if o.disc == 0: return o
        if truthy(m, m.call_closure(a[1], [Ref([o.f[0]], 0)])): return o

def m_any(m, a, raw):
    it = iter_arg(m, a[0])
    while True:
        o = it_next(m, it)
        if o.disc == 0: return False
        if truthy(m, m.call_closure(a[1], [o.f[0]])): return True

def m_all(m, a, raw):
    it = iter_arg(m, a[0])
    while True:
        o = it_next(m, it)
        if o.disc == 0: return True
        if not truthy(m, m.call_closure(a[1], [o.f[0]])): return False

def m_count(m, a, raw):
    it = iter_arg(m, a[0]); n = 0
    while it_next(m, it).disc == 1: n += 1
    return n

def m_last(m, a, raw):
    it = iter_arg(m, a[0]); last = mk_option(None)
    while True:
        o = it_next(m, it)
        if o.disc == 0: return last
        last = o

def m_collect(m, a, raw):
    it = iter_arg(m, a[0]); out = []
    while True:
        o = it_next(m, it)
        if o.disc == 0: return VecObj(out)
        out.append(o.f[0])

def m_position(m, a, raw):
    it = iter_arg(m, a[0]); i = 0
    while True:
        o = it_next(m, it)
        if o.disc == 0: return o
        if truthy(m, m.call_closure(a[1], [o.f[0]])): return mk_option(i)
        i += 1

def m_peek(m, a, raw):
    it = iter_arg(m, a[0])
    if it.b is None: it.b = it_next(m, it.src)
    o = it.b
    return mk_option(Ref(o.f, 0)) if o.disc == 1 else mk_option(None)

# ---------------------------------------------------------------- slices / vec / str
def idx_any(m, a, raw):
    s = as_slice(a[0]); r = a[1]
    if isinstance(r, int) and not isinstance(r, bool):
        if isinstance(s, str): raise Unsupported('str index by int')
        n = s.hi - s.lo
        if not 0 <= r < n: raise Panic(f'index out of bounds: the len is {n} but the index is {r}')
        return Ref(s.items, s.lo + r)
    if r.__class__ is Sym: raise Unsupported('symbolic index')
    if r.ty == 'Range': lo, hi = r.f[0], r.f[1]
    elif r.ty == 'RangeTo': lo, hi = 0, r.f[0]
    elif r.ty == 'RangeFrom': lo, hi = r.f[0], None
    elif r.ty == 'RangeInclusive': lo, hi = r.f[0], r.f[1] + 1
    elif r.ty.startswith('ZST:') and 'RangeFull' in r.ty: lo, hi = 0, None
    else: raise Unsupported('index by ' + r.ty)
    if isinstance(s, str):
        b = s.encode()
        if hi is None: hi = len(b)
        if not (lo <= hi <= len(b)): raise Panic(f'byte index out of range of str: {lo}..{hi} of {len(b)}')
        try: return b[lo:hi].decode()
        except UnicodeDecodeError: raise Panic(f'byte index {lo}..{hi} is not a char boundary')
    n = s.hi - s.lo
    if hi is None: hi = n
    if lo > hi: raise Panic(f'slice index starts at {lo} but ends at {hi}')
    if hi > n: raise Panic(f'range end index {hi} out of range for slice of length {n}')
    return SliceRef(s.items, s.lo + lo, s.lo + hi)

def m_insert(m, a, raw):
    v = a[0].get(); i = a[1]
    if i > len(v.items): raise Panic(f'insertion index (is {i}) should be <= len (is {len(v.items)})')
    v.items.insert(i, a[2]); return UNIT

def m_remove(m, a, raw):
    v = a[0].get(); i = a[1]
    if i >= len(v.items): raise Panic(f'removal index (is {i}) should be < len (is {len(v.items)})')
    return v.items.pop(i)

def m_push(m, a, raw): a[0].get().items.append(a[1]); return UNIT
def m_truncate(m, a, raw):
    v = a[0].get()
    if a[1] < len(v.items): del v.items[a[1]:]
    return UNIT
def m_slice_get(m, a, raw):
    s = as_slice(a[0]); i = a[1]
    if isinstance(i, int):
        return mk_option(Ref(s.items, s.lo + i) if 0 <= i < s.hi - s.lo else None)
    raise Unsupported('slice::get with range')
def m_take(m, a, raw):
    r = a[0]; old = r.get()
    if old.__class__ is VecObj: r.set(VecObj()); return old
    if old.__class__ is Agg and old.ty == 'Option': r.set(mk_option(None)); return old
    if isinstance(old, bool): r.set(False); return old
    if isinstance(old, int): r.set(0); return old
    raise Unsupported('mem::take of ' + repr(old))
def m_replace(m, a, raw):
    r = a[0]; old = r.get(); r.set(a[1]); return old
def m_clone(m, a, raw):
    v = a[0].get()
    if v.__class__ is VecObj: return VecObj([copyval(x) for x in v.items])
    return copyval(v)
def m_default(m, a, raw):
    if 'Vec' in raw: return VecObj()
    if 'Iter<' in raw or 'slice::Iter' in raw: return IterObj('slice', [], 0, 0)
    if re.search(r'<(usize|u\d+|i\d+|isize) as', raw): return 0
    if '<bool as' in raw: return False
    if 'Option' in raw: return mk_option(None)
    if '<() as' in raw: return UNIT
    if 'String' in raw: return ''
    raise Unsupported('default ' + raw)

def m_map_or(m, a, raw):
    o = a[0]
    if o.disc == 0: return a[1]
    return m.call_closure(a[2], [o.f[0]])
def m_map_or_else(m, a, raw):
    o = a[0]
    if o.disc == 0: return m.call_closure(a[1], [])
    return m.call_closure(a[2], [o.f[0]])
def m_opt_map(m, a, raw):
    o = a[0]
    if o.disc == 0: return o
    return mk_option(m.call_closure(a[1], [o.f[0]]))
def m_and_then(m, a, raw):
    o = a[0]
    if o.disc == 0: return o
    return m.call_closure(a[1], [o.f[0]])
def m_or_else(m, a, raw):
    o = a[0]
    if o.disc == 1: return o
    return m.call_closure(a[1], [])
def m_unwrap_or(m, a, raw):
    o = a[0]
    return o.f[0] if o.disc == 1 else a[1]
def m_unwrap_or_else(m, a, raw):
    o = a[0]
    return o.f[0] if o.disc == 1 else m.call_closure(a[1], [])
def m_unwrap(m, a, raw):
    o = a[0]
    if o.ty == 'Option':
        if o.disc == 0: raise Panic('called `Option::unwrap()` on a `None` value')
        return o.f[0]
    if o.disc == 1: raise Panic('called `Result::unwrap()` on an `Err` value')
    return o.f[0]
def m_expect(m, a, raw):
    o = a[0]
    if (o.ty == 'Option' and o.disc == 0) or (o.ty == 'Result' and o.disc == 1): raise Panic('expect failed: ' + str(a[1]))
    return o.f[0]
def m_is_some_and(m, a, raw):
    o = a[0]
    if o.disc == 0: return False
    r = m.call_closure(a[1], [o.f[0]])
    return r
def m_opt_filter(m, a, raw):
    o = a[0]
    if o.disc == 0: return o
    if truthy(m, m.call_closure(a[1], [Ref(o.f, 0)])): return o
    return mk_option(None)
def m_then(m, a, raw):
    c = a[0]
    if c.__class__ is Sym: c = truthy(m, c)
    return mk_option(m.call_closure(a[1], [])) if c else mk_option(None)
def m_then_some(m, a, raw):
    c = a[0]
    if c.__class__ is Sym: c = truthy(m, c)
    return mk_option(a[1]) if c else mk_option(None)
def m_opt_take(m, a, raw):
    r = a[0]; old = r.get(); r.set(mk_option(None)); return old
def m_as_ref(m, a, raw):
    o = deref(a[0])
    if o.__class__ is Agg and o.ty == 'Option':
        return mk_option(Ref(o.f, 0)) if o.disc == 1 else mk_option(None)
    return a[0]
def m_copied(m, a, raw):
    o = a[0]
    if o.__class__ is Agg and o.ty == 'Option':
        return mk_option(copyval(deref(o.f[0]))) if o.disc == 1 else o
    if o.__class__ is IterObj: return IterObj('map_deref', o)
    raise Unsupported('copied')

def m_fn_call(m, a, raw):
    clo = deref(a[0])
    return m.call_closure(clo, list(a[1].f))

def m_try_branch(m, a, raw):
    o = a[0]
    if o.ty == 'Option':
        return Agg('ControlFlow', 0, [o.f[0]]) if o.disc == 1 else Agg('ControlFlow', 1, [Agg('Option', 0, [])])
    if o.ty == 'Result':
        return Agg('ControlFlow', 0, [o.f[0]]) if o.disc == 0 else Agg('ControlFlow', 1, [Agg('Result', 1, [o.f[0]])])
    raise Unsupported('Try::branch ' + o.ty)
def m_from_residual(m, a, raw):
    r = a[0]
    if r.ty == 'Option': return Agg('Option', 0, [])
    if r.ty == 'Result': return Agg('Result', 1, [r.f[0]])
    raise Unsupported('from_residual ' + r.ty)

def m_eq(m, a, raw):
    x, y = deref(a[0]), deref(a[1])
    return val_eq(m, x, y)
def val_eq(m, x, y):
    x, y = deref(x) if x.__class__ is Ref else x, deref(y) if y.__class__ is Ref else y
    if x.__class__ is Agg and y.__class__ is Agg:
        if x.disc.__class__ is Sym or y.disc.__class__ is Sym:
            return m.binop('Eq', x.disc, y.disc, None)
        if x.disc != y.disc or len(x.f) != len(y.f): return False
        res = True
        for p, q in zip(x.f, y.f):
            r = val_eq(m, p, q)
            if r.__class__ is Sym: res = r if res is True else Sym(z3.And(res.e, r.e))
            elif not r: return False
        return res
    if x.__class__ is Sym or y.__class__ is Sym: return m.binop('Eq', x, y, None)
    if x.__class__ is SliceRef and y.__class__ is SliceRef:
        if x.hi - x.lo != y.hi - y.lo: return False
        return all(val_eq(m, x.items[x.lo + i], y.items[y.lo + i]) is True for i in range(x.hi - x.lo))
    return x == y
def m_ne(m, a, raw):
    r = m_eq(m, a, raw)
    if r.__class__ is Sym: return Sym(z3.Not(r.e))
    return not r

MODELS = {
    'Vec::new': lambda m, a, r: VecObj(),
    'Vec::with_capacity': lambda m, a, r: VecObj(),
    'Vec::push': m_push,
    'Vec::pop': lambda m, a, r: mk_option(a[0].get().items.pop() if a[0].get().items else None),
    'Vec::len': lambda m, a, r: len(a[0].get().items),
    'Vec::is_empty': lambda m, a, r: len(a[0].get().items) == 0,
    'Vec::insert': m_insert,
    'Vec::remove': m_remove,
    'Vec::truncate': m_truncate,
    'Vec::clear': lambda m, a, r: (a[0].get().items.clear(), UNIT)[1],
    'Vec::reserve': lambda m, a, r: UNIT,
    'Vec::as_slice': lambda m, a, r: as_slice(a[0]),
    'Vec::last': lambda m, a, r: (lambda s: mk_option(Ref(s.items, s.hi - 1) if s.hi > s.lo else None))(as_slice(a[0])),
    'Vec::extend_from_slice': lambda m, a, r: (a[0].get().items.extend(copyval(x) for x in as_slice(a[1]).items[as_slice(a[1]).lo:as_slice(a[1]).hi]), UNIT)[1],
    'Deref::deref': lambda m, a, r: as_slice(a[0]) if not isinstance(deref(a[0]), str) else deref(a[0]),
    'DerefMut::deref_mut': lambda m, a, r: as_slice(a[0]),
    'Index::index': idx_any,
    'IndexMut::index_mut': idx_any,
    'slice::get': m_slice_get,
    'slice::iter': lambda m, a, r: (lambda s: IterObj('slice', s.items, s.lo, s.hi))(as_slice(a[0])),
    'slice::len': lambda m, a, r: (lambda s: s.hi - s.lo)(as_slice(a[0])),
    'slice::is_empty': lambda m, a, r: (lambda s: s.hi == s.lo)(as_slice(a[0])),
    'slice::last_mut': lambda m, a, r: (lambda s: mk_option(Ref(s.items, s.hi - 1) if s.hi > s.lo else None))(as_slice(a[0])),
    'slice::last': lambda m, a, r: (lambda s: mk_option(Ref(s.items, s.hi - 1) if s.hi > s.lo else None))(as_slice(a[0])),
    'slice::first': lambda m, a, r: (lambda s: mk_option(Ref(s.items, s.lo) if s.hi > s.lo else None))(as_slice(a[0])),
    'str::len': lambda m, a, r: (lambda v: v.symlen if hasattr(v, 'symlen') else len(v.encode()))(deref(a[0])),
    'methods::len_utf8': lambda m, a, r: Sym(z3.simplify(SymStr.len_utf8(a[0].e))) if a[0].__class__ is Sym else len(chr(a[0]).encode()),
    'str::char_indices': lambda m, a, r: IterObj('sym_char_indices', deref(a[0]), 0) if deref(a[0]).__class__ is SymStr else IterObj('char_indices_concrete', deref(a[0]), 0),
    'str::is_empty': lambda m, a, r: len(deref(a[0])) == 0,
    'num::to_le_bytes': lambda m, a, r: Agg('array', None, [(a[0] >> (8 * i)) & 255 for i in range(8)]),
    'num::from_le_bytes': lambda m, a, r: sum(b << (8 * i) for i, b in enumerate(a[0].f)),
    'num::saturating_sub': lambda m, a, r: _sat_sub(a[0], a[1]),
    'num::checked_sub': lambda m, a, r: mk_option(a[0] - a[1] if a[0] >= a[1] else None),
    'Ord::min': lambda m, a, r: min(a[0], a[1]),
    'Ord::max': lambda m, a, r: max(a[0], a[1]),
    'mem::take': m_take,
    'mem::replace': m_replace,
    'Iterator::skip': lambda m, a, r: IterObj('skip', iter_arg(m, a[0]), a[1]),
    'Iterator::take': lambda m, a, r: IterObj('take', iter_arg(m, a[0]), a[1]),
    'Iterator::rev': lambda m, a, r: IterObj('rev', iter_arg(m, a[0])),
    'Iterator::enumerate': lambda m, a, r: IterObj('enumerate', iter_arg(m, a[0]), 0),
    'Iterator::filter': lambda m, a, r: IterObj('filter', iter_arg(m, a[0]), clo=a[1]),
    'Iterator::map': lambda m, a, r: IterObj('map', iter_arg(m, a[0]), clo=a[1]),
    'Iterator::filter_map': lambda m, a, r: IterObj('filter_map', iter_arg(m, a[0]), clo=a[1]),
    'Iterator::flatten': lambda m, a, r: IterObj('flatten', iter_arg(m, a[0]), b=None),
    'Iterator::chain': lambda m, a, r: IterObj('chain', iter_arg(m, a[0]), b=to_iter(m, a[1])),
    'Iterator::peekable': lambda m, a, r: IterObj('peekable', iter_arg(m, a[0]), b=None),
    'Peekable::peek': m_peek,
    'Iterator::nth': m_nth,
    'Iterator::next': lambda m, a, r: it_next(m, iter_arg(m, a[0])),
    'DoubleEndedIterator::next_back': lambda m, a, r: it_next_back(m, iter_arg(m, a[0])),
    'Iterator::find_map': m_find_map,
    'Iterator::find': m_find,
    'Iterator::any': m_any,
    'Iterator::all': m_all,
    'Iterator::count': m_count,
    'Iterator::last': m_last,
    'Iterator::collect': m_collect,
    'Iterator::position': m_position,
    'IntoIterator::into_iter': lambda m, a, r: to_iter(m, a[0]),
    'Option::map_or': m_map_or,
    'Option::map_or_else': m_map_or_else,
    'Option::map': m_opt_map,
    'Option::and_then': m_and_then,
    'Option::or_else': m_or_else,
    'Option::unwrap_or': m_unwrap_or,
    'Option::unwrap_or_else': m_unwrap_or_else,
    'Option::unwrap_or_default': lambda m, a, r: a[0].f[0] if a[0].disc == 1 else m_default(m, [], r),
    'Option::unwrap': m_unwrap,
    'Option::expect': m_expect,
    'Result::unwrap': m_unwrap,
    'Result::expect': m_expect,
    'Result::ok': lambda m, a, r: mk_option(a[0].f[0] if a[0].disc == 0 else None),
    'Result::is_ok': lambda m, a, r: deref(a[0]).disc == 0,
    'Result::is_err': lambda m, a, r: deref(a[0]).disc == 1,
    'Option::is_some': lambda m, a, r: deref(a[0]).disc == 1,
    'Option::is_none': lambda m, a, r: deref(a[0]).disc == 0,
    'Option::is_some_and': m_is_some_and,
    'Option::filter': m_opt_filter,
    'Option::take': m_opt_take,
    'Option::as_ref': m_as_ref,
    'Option::as_mut': m_as_ref,
    'Option::copied': m_copied,
    'Option::cloned': m_copied,
    'Option::or': lambda m, a, r: a[0] if a[0].disc == 1 else a[1],
    'Option::ok_or': lambda m, a, r: Agg('Result', 0, [a[0].f[0]]) if a[0].disc == 1 else Agg('Result', 1, [a[1]]),
    'bool::then': m_then,
    'bool::then_some': m_then_some,
    'Clone::clone': m_clone,
    'From::from': lambda m, a, r: a[0],          # identity conversions (String::from(&str), T from T)
    'Into::into': lambda m, a, r: a[0],
    'ToString::to_string': lambda m, a, r: deref(a[0]) if isinstance(deref(a[0]), str) else '<fmt>',
    'ToOwned::to_owned': lambda m, a, r: deref(a[0]),
    'RangeInclusive::new': lambda m, a, r: Agg('RangeInclusive', None, [a[0], a[1], False]),
    'PartialEq::eq': m_eq,
    'PartialEq::ne': m_ne,
    'Default::default': m_default,
    'Fn::call': m_fn_call,
    'FnMut::call_mut': m_fn_call,
    'FnOnce::call_once': m_fn_call,
    'Try::branch': m_try_branch,
    'FromResidual::from_residual': m_from_residual,
    'mem::drop': lambda m, a, r: UNIT,
    'mem::forget': lambda m, a, r: UNIT,
    'Range::len': lambda m, a, r: max(0, deref(a[0]).f[1] - deref(a[0]).f[0]),
    'ExactSizeIterator::len': lambda m, a, r: it_len(iter_arg(m, a[0])) if not (deref(a[0]).__class__ is Agg) else max(0, deref(a[0]).f[1] - deref(a[0]).f[0]),
    'Range::is_empty': lambda m, a, r: _ge(deref(a[0]).f[0], deref(a[0]).f[1]),
    'Range::contains': lambda m, a, r: deref(a[0]).f[0] <= deref(a[1]) < deref(a[0]).f[1],
    'size_hint': lambda m, a, r: Agg('tuple', None, [0, mk_option(None)]),
}
# type-qualified aliases used by call sites of the form <T as Trait>::method
for _k in list(MODELS):
    pass
