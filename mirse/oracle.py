"""SMT oracles built from the independent grammar model (mirse.gram), never from lelwel's analysis:
   M(t)   bounded membership  "start derives t_0 .. t_{n-1}"
   V_p(t) viable prefix       "t_0 .. t_{p-1} is a prefix of some sentence"
as z3 Boolean terms over the token variables.  Left recursion is handled by a cycle cut on (rule, span): a minimal
derivation never repeats a (rule, span) pair, so cutting such a repetition keeps the least fixpoint."""
import z3
from .gram import EPS_KINDS

T_, F_ = z3.BoolVal(True), z3.BoolVal(False)

def Or(xs):
    ys = []
    for x in xs:
        if z3.is_true(x): return T_
        if not z3.is_false(x): ys.append(x)
    return F_ if not ys else (ys[0] if len(ys) == 1 else z3.Or(*ys))

def And(xs):
    ys = []
    for x in xs:
        if z3.is_false(x): return F_
        if not z3.is_true(x): ys.append(x)
    return T_ if not ys else (ys[0] if len(ys) == 1 else z3.And(*ys))

class Oracle:
    def __init__(self, rules, start, tvars, tokidx):
        self.rules, self.start, self.t, self.tok = rules, start, tvars, tokidx
        self.n = len(tvars)
        self.memoD = {}; self.memoP = {}
        self.stars = {}
        self.nullable = self._nullable()

    def _nullable(self):
        nl = set()
        def nu(x):
            k = x[0]
            if k == 'tok': return False
            if k in EPS_KINDS or k in ('opt', 'star'): return True
            if k == 'ref': return x[1] in nl
            if k == 'seq': return all(nu(y) for y in x[1])
            if k in ('alt', 'choice'): return any(nu(y) for y in x[1])
            if k == 'plus': return nu(x[1])
            raise ValueError(x)
        ch = True
        while ch:
            ch = False
            for n, r in self.rules.items():
                if n not in nl and (r is None or nu(r)): nl.add(n); ch = True
        self._nu = nu
        return nl

    def star_of(self, x):
        return self.stars.setdefault(id(x), ('star', x))

    # X derives t_i..t_{j-1}
    def D(self, X, i, j, open_=frozenset()):
        if X is None: return T_ if i == j else F_
        key = (id(X), i, j, open_)
        r = self.memoD.get(key)
        if r is not None: return r
        k = X[0]
        if k == 'tok': r = (self.t[i] == self.tok[X[1]]) if j == i + 1 else F_
        elif k in EPS_KINDS: r = T_ if i == j else F_
        elif k == 'ref':
            tag = (X[1], i, j)
            r = F_ if tag in open_ else self.D(self.rules[X[1]], i, j, open_ | {tag})
        elif k in ('alt', 'choice'): r = Or([self.D(a, i, j, open_) for a in X[1]])
        elif k == 'opt': r = T_ if i == j else self.D(X[1], i, j, open_)
        elif k == 'seq': r = self.Dseq(X[1], 0, i, j, open_)
        elif k in ('star', 'plus'):
            if i == j:
                r = T_ if k == 'star' else self.D(X[1], i, j, open_)
            else:
                star = self.star_of(X[1])
                alts = []
                for m in range(i + 1, j + 1):
                    a = self.D(X[1], i, m, open_ if m == j else frozenset())
                    if z3.is_false(a): continue
                    alts.append(And([a, self.D(star, m, j, frozenset()) if m < j else T_]))
                r = Or(alts)
        else: raise ValueError(k)
        self.memoD[key] = r
        return r

    def Dseq(self, xs, p, i, j, open_):
        if p == len(xs): return T_ if i == j else F_
        if p == len(xs) - 1: return self.D(xs[p], i, j, open_)
        key = ('seq', id(xs), p, i, j, open_)
        r = self.memoD.get(key)
        if r is not None: return r
        alts = []
        for m in range(i, j + 1):
            a = self.D(xs[p], i, m, open_ if m == j else frozenset())
            if z3.is_false(a): continue
            b = self.Dseq(xs, p + 1, m, j, open_ if m == i else frozenset())
            alts.append(And([a, b]))
        r = Or(alts)
        self.memoD[key] = r
        return r

    # t_i..t_{p-1} is a prefix of some string derived from X (every symbol productive)
    def P(self, X, i, p, open_=frozenset()):
        if i == p: return T_
        if X is None: return F_
        key = (id(X), i, p, open_)
        r = self.memoP.get(key)
        if r is not None: return r
        k = X[0]
        if k == 'tok': r = (self.t[i] == self.tok[X[1]]) if p == i + 1 else F_
        elif k in EPS_KINDS: r = F_
        elif k == 'ref':
            tag = (X[1], i, p)
            r = F_ if tag in open_ else self.P(self.rules[X[1]], i, p, open_ | {tag})
        elif k in ('alt', 'choice'): r = Or([self.P(a, i, p, open_) for a in X[1]])
        elif k == 'opt': r = self.P(X[1], i, p, open_)
        elif k == 'seq': r = self.Pseq(X[1], 0, i, p, open_)
        elif k in ('star', 'plus'):
            star = self.star_of(X[1])
            alts = [self.P(X[1], i, p, open_)]
            for m in range(i + 1, p + 1):
                a = self.D(X[1], i, m)
                if z3.is_false(a): continue
                alts.append(And([a, self.P(star, m, p)]))
            r = Or(alts)
        else: raise ValueError(k)
        self.memoP[key] = r
        return r

    def Pseq(self, xs, q, i, p, open_):
        if i == p: return T_
        if q == len(xs): return F_
        key = ('seq', id(xs), q, i, p, open_)
        r = self.memoP.get(key)
        if r is not None: return r
        alts = [self.P(xs[q], i, p, open_)]
        for m in range(i, p):
            a = self.D(xs[q], i, m)
            if z3.is_false(a): continue
            alts.append(And([a, self.Pseq(xs, q + 1, m, p, open_ if m == i else frozenset())]))
        r = Or(alts)
        self.memoP[key] = r
        return r

    def member(self, start=None): return self.D(('ref', start or self.start), 0, self.n)
    def viable(self, p, start=None): return self.P(('ref', start or self.start), 0, p)

# ---------------------------------------------------------------- concrete reference recogniser (oracle self-check)
def derives(rules, X, w, memo=None, open_=frozenset()):
    """plain-Python CFG membership over a concrete token-name tuple (exhaustive splits, cycle cut)"""
    if memo is None: memo = {}
    stars = {}
    def D(X, i, j, open_):
        if X is None: return i == j
        key = (id(X), i, j, open_)
        if key in memo: return memo[key]
        k = X[0]
        if k == 'tok': r = j == i + 1 and w[i] == X[1]
        elif k in EPS_KINDS: r = i == j
        elif k == 'ref':
            tag = (X[1], i, j)
            r = False if tag in open_ else D(rules[X[1]], i, j, open_ | {tag})
        elif k in ('alt', 'choice'): r = any(D(a, i, j, open_) for a in X[1])
        elif k == 'opt': r = i == j or D(X[1], i, j, open_)
        elif k == 'seq':
            def S(p, i, j, open_):
                if p == len(X[1]): return i == j
                if p == len(X[1]) - 1: return D(X[1][p], i, j, open_)
                return any(D(X[1][p], i, m, open_ if m == j else frozenset()) and S(p + 1, m, j, open_ if m == i else frozenset()) for m in range(i, j + 1))
            r = S(0, i, j, open_)
        elif k in ('star', 'plus'):
            if i == j: r = True if k == 'star' else D(X[1], i, j, open_)
            else:
                r = any(D(X[1], i, m, open_ if m == j else frozenset()) and (m == j or D(stars.setdefault(id(X[1]), ('star', X[1])), m, j, frozenset())) for m in range(i + 1, j + 1))
        else: raise ValueError(k)
        memo[key] = r
        return r
    return D(X, 0, len(w), open_)
