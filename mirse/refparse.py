"""Reference interpreter of the grammar model with value semantics (no mutable parser state, no error recovery):
returns, for a concrete token-name sequence, whether it is a sentence of the PRIORITISED reading (ordered choice = first
alternative whose attempt succeeds, PEG style, commit `~` forbids falling back; `?t` = the guarded branch wins), the
derivation tree with the documented node-operator semantics applied, and the sequence of semantic actions.
Decisions inside alternations / options / repetitions use one token of lookahead and first/follow sets computed HERE
from the model by the textbook fixpoint - independent code, not lelwel's tables."""
from .gram import EPS_KINDS, is_pratt

EOF_ = '$'

class Fail(Exception):
    def __init__(self, pos, committed=False): self.pos, self.committed = pos, committed

class Sets:
    def __init__(self, g):
        self.g = g; self.rules = g.rules_dict()
        self.nullable = set(); self.first = {n: set() for n in self.rules}; self.follow = {n: set() for n in self.rules}
        self._fix_first(); self._fix_follow()

    def nu(self, x):
        if x is None: return True
        k = x[0]
        if k == 'tok': return False
        if k in EPS_KINDS or k in ('opt', 'star'): return True
        if k == 'ref': return x[1] in self.nullable
        if k == 'seq': return all(self.nu(y) for y in x[1])
        if k in ('alt', 'choice'): return any(self.nu(y) for y in x[1])
        if k == 'plus': return self.nu(x[1])
        raise ValueError(x)

    def fi(self, x):
        if x is None: return set()
        k = x[0]
        if k == 'tok': return {x[1]}
        if k in EPS_KINDS: return set()
        if k == 'ref': return set(self.first[x[1]])
        if k == 'seq':
            s = set()
            for y in x[1]:
                s |= self.fi(y)
                if not self.nu(y): break
            return s
        if k in ('alt', 'choice'): return set().union(*[self.fi(y) for y in x[1]])
        if k in ('opt', 'star', 'plus'): return self.fi(x[1])
        raise ValueError(x)

    def _fix_first(self):
        ch = True
        while ch:
            ch = False
            for n, r in self.rules.items():
                if n not in self.nullable and self.nu(r): self.nullable.add(n); ch = True
                f = self.fi(r)
                if not f <= self.first[n]: self.first[n] |= f; ch = True

    def _fix_follow(self):
        self.follow[self.g.start].add(EOF_)
        for p in self.g.parts: self.follow[p].add(EOF_)
        ch = True
        def walk(x, fol):
            nonlocal ch
            if x is None: return
            k = x[0]
            if k == 'ref':
                if not fol <= self.follow[x[1]]: self.follow[x[1]] |= fol; ch = True
            elif k == 'seq':
                xs = x[1]
                for i, y in enumerate(xs):
                    f = set(); j = i + 1
                    while j < len(xs):
                        f |= self.fi(xs[j])
                        if not self.nu(xs[j]): break
                        j += 1
                    else: f |= fol
                    walk(y, f)
            elif k in ('alt', 'choice'):
                for y in x[1]: walk(y, fol)
            elif k == 'opt': walk(x[1], fol)
            elif k in ('star', 'plus'): walk(x[1], fol | self.fi(x[1]))
        while ch:
            ch = False
            for n, r in self.rules.items(): walk(r, set(self.follow[n]))

class Node:
    __slots__ = ('name', 'kids')
    def __init__(self, name, kids): self.name, self.kids = name, kids
    def plain(self): return ('R', self.name, [k.plain() if isinstance(k, Node) else ('T', k) for k in self.kids])

class Ctx:
    """per rule application: children built so far, marks, rename, elision"""
    def __init__(self, rule): self.rule = rule; self.kids = []; self.marks = {}; self.name = rule; self.elide = False
    def snapshot(self): return (list(self.kids), dict(self.marks), self.name, self.elide)
    def restore(self, s): self.kids, self.marks, self.name, self.elide = list(s[0]), dict(s[1]), s[2], s[3]

class Ref:
    def __init__(self, g):
        self.g = g; self.S = Sets(g); self.rules = g.rules_dict()

    def la(self, w, i): return w[i] if i < len(w) else EOF_

    def run(self, w, start=None, part=False):
        """-> dict(accept, tree, actions, fail_pos)"""
        self.actions = []; self.commits = []
        start = start or self.g.start
        try:
            top = Ctx('#root')
            i = self.rule(start, w, 0, top, {EOF_}, is_start=not part)
            if i != len(w): raise Fail(i)
            if part: tree = Node('part', top.kids)
            else: tree = top.kids[0]
            return dict(accept=True, tree=tree.plain(), actions=list(self.actions))
        except Fail as f:
            return dict(accept=False, fail_pos=f.pos, tree=None, actions=list(self.actions))

    # ---- a rule application
    def rule(self, name, w, i, parent, fol, is_start=False):
        body = self.rules[name]
        if is_pratt(name, body): return self.pratt(name, w, i, parent, fol)
        cx = Ctx(name)
        if self.g.rule_elided(name): cx.elide = True
        i = self.rx(body, w, i, cx, fol) if body is not None else i
        if cx.elide and not is_start: parent.kids.extend(cx.kids)
        else: parent.kids.append(Node(cx.name, cx.kids))
        return i

    def predicts(self, x, tok, fol):
        return tok in self.S.fi(x) or (self.S.nu(x) and tok in fol)

    def rx(self, x, w, i, cx, fol):
        k = x[0]
        if k == 'tok':
            if self.la(w, i) != x[1]: raise Fail(i)
            cx.kids.append(i); return i + 1
        if k == 'ref': return self.rule(x[1], w, i, cx, fol)
        if k == 'seq':
            xs = x[1]
            for j, y in enumerate(xs):
                f = set(); m = j + 1
                while m < len(xs):
                    f |= self.S.fi(xs[m])
                    if not self.S.nu(xs[m]): break
                    m += 1
                else: f |= fol
                i = self.rx(y, w, i, cx, f)
            return i
        if k == 'alt':
            t = self.la(w, i)
            for y in x[1]:
                if self.predicts(y, t, fol): return self.rx(y, w, i, cx, fol)
            raise Fail(i)
        if k == 'choice':
            alts = x[1]
            for n, y in enumerate(alts):
                last = n == len(alts) - 1
                if not self.predicts(y, self.la(w, i), fol):
                    continue
                if last: return self.rx(y, w, i, cx, fol)
                snap = cx.snapshot(); acts = len(self.actions)
                self.commits.append(False)
                try:
                    r = self.rx(y, w, i, cx, fol)
                    self.commits.pop()
                    return r
                except Fail as f:
                    committed = self.commits.pop()
                    if committed: raise Fail(f.pos)          # no falling back after `~`
                    cx.restore(snap); del self.actions[acts:]
            raise Fail(i)
        if k == 'opt':
            if self.la(w, i) in self.S.fi(x[1]): return self.rx(x[1], w, i, cx, fol)
            return i
        if k in ('star', 'plus'):
            f2 = fol | self.S.fi(x[1])
            if k == 'plus': i = self.rx(x[1], w, i, cx, f2)
            while self.la(w, i) in self.S.fi(x[1]):
                j = self.rx(x[1], w, i, cx, f2)
                if j == i: raise Fail(i)
                i = j
            return i
        if k == 'rename': cx.name = x[1]; return i
        if k == 'elide': cx.elide = True; return i
        if k == 'mark': cx.marks[x[1]] = len(cx.kids); return i
        if k == 'create':
            pos = 0 if x[1] is None else cx.marks[x[1]]
            name = x[2] or cx.rule
            cx.kids[pos:] = [Node(name, cx.kids[pos:])]
            return i
        if k == 'action': self.actions.append((cx.rule, x[1])); return i
        if k == 'commit':
            if self.commits: self.commits[-1] = True
            return i
        if k in ('pred', 'ptrue', 'assert', 'ret'): return i
        raise ValueError(x)

    # ---- directly left-recursive rule: precedence climbing from branch order and the `right` list
    def pratt(self, name, w, i, parent, fol):
        body = self.rules[name]
        branches = []
        for rank, b in enumerate(body[1]):
            xs = list(b[1]) if b[0] == 'seq' else [b]
            core = [y for y in xs if y[0] not in ('pred', 'ptrue')]
            left = core[0] == ('ref', name)
            sem = [y for y in core if y[0] not in EPS_KINDS]
            right_rec = len(sem) > 1 and sem[-1] == ('ref', name)
            branches.append(dict(rank=rank, xs=xs, left=left, right_rec=right_rec))
        nb = len(branches)
        def opfirst(br):
            xs = [y for y in br['xs'] if y[0] not in ('pred', 'ptrue')]
            rest = xs[1:] if br['left'] else xs
            return self.S.fi(('seq', tuple(rest)))
        def is_right(br):
            ops = opfirst(br)
            return bool(ops) and all(o in self.g.right for o in ops)
        def apply_branch(br, w, i, lhs, min_rank):
            """parse the branch body after the (optional) left operand; returns (node_or_items, i)"""
            cx = Ctx(name)
            if lhs is not None: cx.kids.extend(lhs)
            xs = [y for y in br['xs']]
            # skip the leading self reference
            started = not br['left']
            sem_idx = [n for n, y in enumerate(xs) if y[0] not in EPS_KINDS]
            last_sem = sem_idx[-1] if sem_idx else -1
            for n, y in enumerate(xs):
                if not started:
                    if y == ('ref', name): started = True
                    continue
                if y == ('ref', name) and n == last_sem and br['right_rec']:
                    # right operand: binds operators strictly tighter, or equally tight for a right-associative branch
                    lim = br['rank'] + (1 if (br['left'] and is_right(br)) or not br['left'] else 0)
                    i = expr(w, i, cx, lim, fol)
                else:
                    f = fol | set().union(*[opfirst(b2) for b2 in branches if b2['left']])
                    i = self.rx(y, w, i, cx, f)
            return cx, i
        def expr(w, i, out_cx, lim, fol):
            """parse an operand whose operators all have rank < lim (lower rank = tighter)"""
            t = self.la(w, i)
            lhs = None
            for br in branches:
                if br['left']: continue
                if t in self.S.fi(('seq', tuple(br['xs']))):
                    cx, i = apply_branch(br, w, i, None, lim)
                    lhs = cx; break
            if lhs is None: raise Fail(i)
            items = lhs.kids if lhs.elide else [Node(lhs.name, lhs.kids)]
            while True:
                t = self.la(w, i)
                took = False
                for br in branches:
                    if not br['left']: continue
                    if t in opfirst(br) and br['rank'] < lim:
                        cx, i = apply_branch(br, w, i, items, lim)
                        items = [Node(cx.name, cx.kids)]
                        took = True; break
                if not took: break
            out_cx.kids.extend(items)
            return i
        return expr(w, i, parent, nb + 1, fol)
