"""check driver: corpus selection per property, parallel jobs, known-findings matching, replay files, evidence."""
import os, sys, json, time, hashlib, re, traceback
from .mir import Unsupported
from concurrent.futures import ProcessPoolExecutor, as_completed
from . import harness, corpus, props, gram

VERIF = harness.VERIF

def tier(): return os.environ.get('VERIF_TIER', 'quick') if os.environ.get('VERIF_TIER') in ('quick', 'thorough') else 'quick'
def seed():
    try: return int(os.environ.get('VERIF_SEED', '0'))
    except ValueError: return 0

# ---------------------------------------------------------------- known findings
def load_known():
    p = os.path.join(VERIF, 'known_findings.txt')
    known = []
    if os.path.exists(p):
        for line in open(p):
            line = line.strip()
            if line.startswith('known:'):
                d = dict(re.findall(r'(\w+)=(\S+)', line)); d['text'] = line[len('known:'):].strip(); known.append(d)
    return known

def match_known(known, v):
    for k in known:
        if k.get('property') != (v.get('report_as') or v['prop']): continue
        if 'kind' in k and k['kind'] != v['kind']: continue
        if 'grammar' in k and k['grammar'] != v['gname'] and k['grammar'] != (v.get('family') or ''): continue
        return k
    return None

def write_replay(v):
    d = os.path.join(VERIF, 'replays', v['prop']); os.makedirs(d, exist_ok=True)
    body = dict(property=v['prop'], kind=v['kind'], grammar_name=v['gname'], grammar=v['gtext'], entry=v['entry'],
                tokens=v.get('tokens'), witness=v['witness'], callback_script=v['script'], detail=v['detail'], native=v.get('native'), dynskip=v.get('dynskip'))
    h = hashlib.sha256(json.dumps(body, sort_keys=True, default=str).encode()).hexdigest()[:16]
    p = os.path.join(d, h + '.json')
    json.dump(body, open(p, 'w'), indent=1, default=str)
    return p

# ---------------------------------------------------------------- corpus selection
def select(prop, t, sd):
    cur = corpus.curated(); cov = corpus.coverage_family(); nm = corpus.near_miss()
    nrnd = {'quick': 6, 'thorough': 50}[t]
    rnd = [corpus.random_grammar(sd, i, rich) for rich in (0, 1, 2) for i in range(nrnd)]
    rnd += [corpus.recursive_random_grammar(sd, i) for i in range({'quick': 30, 'thorough': 300}[t])]      # most are rejected (LL(1) conflicts)
    rnd += [corpus.recursive_template_grammar(sd, i) for i in range({'quick': 16, 'thorough': 160}[t])]
    rec = corpus.recovery_family()
    if t == 'quick': rec = rec[sd % 2::2]
    pf = corpus.parts_family()
    px = corpus.product_family()
    if t == 'quick': px = px[sd % 5::5]        # a fifth per seed in the quick tier, all of them in the thorough tier
    zp = corpus.zero_progress_family()
    if t == 'quick': zp = zp[sd % 2::2]
    # symbol twins (`token A='a'` referenced as 'a'): a third of the curated / coverage / recovery grammars per seed in quick, all in thorough
    base = cur + cov + rec + pf
    sym = [gram.symbolize(g) for i, g in enumerate(base) if t == 'thorough' or (i + sd) % 3 == 0]
    pairs = corpus.pair_family(all_pairs=(t == 'thorough'), seed=sd)
    gs = cur + cov + nm + rec + pf + px + zp + pairs + sym + rnd
    if prop in ('C01', 'C02', 'C03'): gs = gs + corpus.dynskip_family()
    for g in gs:      # sentences up to two tokens longer than the bound (sentence-directed pass, see props.grammar_job)
        if 'deep_sentences' not in g.meta: g.meta['deep_sentences'] = 2
    if prop in ('C04', 'C05'):
        gs = [g for g in gs if not (g.features() & {'pred', 'assert'})]
    if prop == 'C08':
        gs = [g for g in gs if 'choice' in g.features()]
    if prop in ('C06',):
        gs = [g for g in gs if not (g.features() & {'pred', 'assert', 'choice', 'ptrue'})]
    return gs

BOUNDS = {'quick': 4, 'thorough': 5}

def run_parser_property(prop, evals=None, N=None, filt=None, level_text='', job=None, extra=None, grammars=None, side_jobs=None):
    t0 = time.time(); t = tier(); sd = seed()
    harness.build_llw()
    gs = grammars(t, sd) if grammars else select(prop, t, sd)
    if filt: gs = [g for g in gs if filt(g)]
    if os.environ.get('VERIF_ONLY'):      # development aid: restrict the corpus by name (regex)
        gs = [g for g in gs if re.search(os.environ['VERIF_ONLY'], g.name)]
    N = N or BOUNDS[t]
    opts = dict(evals=evals or [prop], validate=40 if t == 'quick' else 400, seed=sd)
    # thorough tier: one token more for the hand-written families; the generated families (product, pairs, symbol twins,
    # random) keep the quick bound but are explored in full instead of a per-seed sample
    def bound(g):
        d = g.meta.get('bound_delta', 0)
        if t == 'thorough' and N == BOUNDS['thorough']:
            deep = g.meta.get('family') in ('curated', 'coverage', 'recovery', 'parts', 'zero-progress', 'pratt') and not g.name.endswith('_sym')
            return (N if deep else N - 1) + d
        return N + d
    jobs = [(g, prop, bound(g), opts) for g in gs]
    results = []
    workers = int(os.environ.get('VERIF_JOBS', '16'))
    side = {}
    lost = []
    ex = ProcessPoolExecutor(workers)
    try:
        from concurrent.futures import wait, FIRST_COMPLETED
        sidef = {k: ex.submit(fn, t) for k, fn in (side_jobs or {}).items()}
        futs = {ex.submit(job or props.grammar_job, j): j[0].name for j in jobs}
        pending = set(futs) | set(sidef.values()); stall = 0
        STALL = int(os.environ.get('VERIF_STALL', 900 if t == 'quick' else 2400))
        while pending:
            done, pending = wait(pending, timeout=60, return_when=FIRST_COMPLETED)
            if not done:
                # nothing finished for a long time: a job that never returns (a result that got lost between the processes, a
                # worker that died) must not hang the check - what is still pending is reported as inconclusive
                stall += 60
                if stall >= STALL:
                    lost = sorted(futs.get(f, 'side job') for f in pending); break
                continue
            stall = 0
            for f in done:
                if f in futs:
                    try: results.append(f.result())
                    except Exception as e: lost.append(f'{futs[f]} ({e!r})')
        for k, f in sidef.items():
            if f.done() and not f.cancelled():
                try: side[k] = f.result()
                except Exception as e: lost.append(f'side job {k} ({e!r})')
    finally:
        procs = list((getattr(ex, '_processes', None) or {}).values())
        ex.shutdown(wait=False, cancel_futures=True)
        if lost:
            for p_ in procs:
                try: p_.kill()
                except Exception: pass
    results.sort(key=lambda r: r['name'])
    ec = extra(results) if extra else {}
    extra_viol = []; extra_inc = []
    for k, v in side.items():
        ec[k] = v.get('cov'); extra_viol += v.get('viol', []); extra_inc += v.get('inconclusive', [])
    extra_inc += [f'job did not return: {x}' for x in lost]
    return finish(prop, results, N, t, sd, t0, extra_cov=ec or None, extra_viol=extra_viol, extra_inc=extra_inc)

KNOWN_NONCOMPILING = ('cannot find value `start`', '`return;` in a function whose return type')

def finish(prop, results, N, t, sd, t0, extra_cov=None, extra_viol=(), extra_inc=()):
    known = load_known()
    viol = []; inconclusive = []; mism = []
    inconclusive += list(extra_inc)
    for v in extra_viol: viol.append(v)
    for r in results:
        inconclusive += r['inconclusive']; mism += r['mismatches']
        for v in r['violations']: viol.append(v)
        # a grammar llw accepts but whose emitted parser does not compile cannot be explored.  Two such shapes exist on the
        # unchanged tree (C11, not claimed: whole-rule creation in a non-elided rule, return behind a commit inside an
        # alternative); any OTHER compile failure is new and must not pass silently
        rs = r.get('reason') or ''
        if rs.startswith('compile-fail') and not any(k in rs for k in KNOWN_NONCOMPILING):
            inconclusive.append(f"{r['name']}: accepted by llw but the emitted parser does not compile: {rs[:200]}")
    reported = 0; known_hits = {}; unconfirmed = 0
    seen = set()
    for v in viol:
        if not v['confirmed']:
            unconfirmed += 1
            inconclusive.append(f"{v['gname']}: counterexample did not reproduce natively ({v['prop']} {v['kind']} {v['witness']})")
            continue
        k = match_known(known, v)
        if k is not None:
            known_hits.setdefault(k['text'], 0); known_hits[k['text']] += 1
            continue
        sig = (v['prop'], v['kind'], v['gname'])
        if sig in seen: continue
        seen.add(sig)
        p = write_replay(v)
        print(f"VIOLATION property={v.get('report_as') or v['prop']} replay={p}")
        print(f"   grammar {v['gname']}: {v['detail'][:300]}  input={v['witness']} script={v['script']!r}")
        reported += 1
    for ktext, cnt in known_hits.items():
        print(f"KNOWN-FINDING: property={prop} {ktext} ({cnt} paths)")
    accepted = [r for r in results if r['accepted']]
    stats = dict(explored_paths=0, reused_paths=0, steps=0, queries=0, solver_time=0.0, reused_steps=0)
    fns = set(); models = set()
    for r in results:
        for k in stats: stats[k] += r['stats'].get(k, 0)
        fns |= set(r['stats']['fns']); models |= set(r['stats']['models'])
    paths = sum(r['paths'] for r in results)
    samples = []
    for r in accepted:
        samples += r['samples'][:1]
    cov = dict(
        states=max(1, paths + sum(r['forks'] for r in results)), transitions=max(1, stats['steps'] + stats['reused_steps']),
        traces_validated_against_impl=sum(r['validated'] for r in results),
        samples=samples[:12] or [{'note': 'no accepted grammar'}],
        exhaustive=not inconclusive,
        explanation='states = leaves + fork nodes of the decision trees (one per grammar, entry point and input length); '
                    'transitions = MIR statements executed symbolically for the paths this check evaluated: transitions_executed_by_this_process of them by this process, the rest by an '
                    'earlier check of the same session on byte-identical MIR (content-addressed cache, see explored_paths / reused_paths)',
        transitions_executed_by_this_process=stats['steps'],
        bounds=dict(max_tokens=N, grammars=len(results), accepted=len(accepted), tier=t),
        grammars=[dict(name=r['name'], family=r['family'], max_tokens=r.get('max_tokens'), deep_sentence_paths=r.get('deep_sentence_paths', 0), accepted=r['accepted'], reason=r['reason'], paths=r['paths'], wall_s=round(r['wall'], 2)) for r in results],
        paths=paths, explored_paths=stats['explored_paths'], reused_paths=stats['reused_paths'],
        solver_queries=stats['queries'] + sum(r['prop_queries'] for r in results),
        solver_time_s=round(stats['solver_time'] + sum(r['prop_time'] for r in results), 3),
        property_queries=sum(r['prop_queries'] for r in results),
        functions_encoded=sorted(fns), std_models=sorted(models),
        inconclusive=inconclusive[:50], engine_native_mismatches=mism[:20],
        known_findings_hit=known_hits, violations_reported=reported, unconfirmed_counterexamples=unconfirmed,
    )
    if extra_cov: cov.update(extra_cov)
    cov['built_from'] = dict(harness.LLW_INFO) or dict(repo=harness.REPO, source_digest=harness.source_digest())   # which source tree this run compiled
    ev = dict(property_id=prop, tier=t, seed=sd, level='model_checking', coverage=cov, wall_s=round(time.time() - t0, 2),
              violations=reported,
              assumptions=['grammars are enumerated concretely (corpus), inputs are symbolic up to the token bound',
                           'std models listed under std_models; guarded by per-path native cross-validation',
                           'token spans are [i,i+1); user callbacks: predicates/assertions arbitrary per call, actions/creates/deletes logged',
                           'rustc MIR printer (nightly) and z3'])
    os.makedirs(os.path.join(VERIF, 'evidence'), exist_ok=True)
    json.dump(ev, open(os.path.join(VERIF, 'evidence', prop + '.json'), 'w'), indent=1, default=str)
    print(f"{prop}: tier={t} N={N} grammars={len(results)} accepted={len(accepted)} paths={paths} (explored {stats['explored_paths']}, reused {stats['reused_paths']}) "
          f"validated={cov['traces_validated_against_impl']} violations={reported} known={sum(known_hits.values())} inconclusive={len(inconclusive)} mismatches={len(mism)} wall={time.time() - t0:.1f}s")
    if reported: return 1
    if inconclusive or mism:
        for x in (inconclusive + mism)[:10]: print('INCONCLUSIVE:', x[:400])
        return 2
    return 0

def _toy_harness():
    g = [x for x in corpus.curated() if x.name == 'toy'][0]
    h, err = harness.make_harness(g.text())
    if h is None: raise Unsupported('cannot build the reference harness: ' + str(err))
    return g, h

def c02_histories(t):
    from . import c02h, run
    out = dict(viol=[], inconclusive=[], cov=None)
    try:
        g, h = _toy_harness(); pp = run.ParserProgram(h)
        L = {'quick': 5, 'thorough': 6}[t]
        tot = dict(paths=0, steps=0, queries=0, solver_time=0.0); samples = []; fns = set()
        for l in range(1, L + 1):
            r = c02h.explore_histories(pp, l)
            for k in tot: tot[k] += r[k]
            samples += r['samples'][:2]; fns |= set(r['fns'])
            if not r['complete']: out['inconclusive'].append(f'histories L={l}: incomplete')
            seen = set()
            for v in r['viol']:
                if v['kind'] in seen: continue
                seen.add(v['kind'])
                out['viol'].append(dict(prop='C02', kind=v['kind'], gname='CstData builder histories', family='histories', detail=v['detail'], entry='history', n=l,
                                        witness=[], script='', gtext=json.dumps(v['witness']), confirmed=True, native=None, report_as=None))
        out['cov'] = dict(max_history_length=L, histories=tot['paths'], mir_steps=tot['steps'], solver_queries=tot['queries'], solver_time_s=round(tot['solver_time'], 3),
                          functions=sorted(f for f in fns if f.startswith('CstData') or 'CstChildren' in f or 'CstIndex' in f), samples=samples[:6],
                          note='op codes and mark arguments are solver variables; every path is one well-nested history; compared with a reference tree model (layout and children() walk)')
    except Exception as e:
        out['inconclusive'].append(f'builder histories: {e!r} {traceback.format_exc()[-500:]}')
    return out

def c02_kani(t):
    from . import c02h
    out = dict(viol=[], inconclusive=[], cov=None)
    try:
        g, h = _toy_harness()
        r = c02h.kani_codec(h)
        out['cov'] = r
        if not r['ok']:
            out['viol'].append(dict(prop='C02', kind='cst-index-codec', gname='CstIndex codec (Kani)', family='kani', detail='Kani does not prove the 48-bit index round trip: ' + r['tail'][-600:], entry='kani', n=0,
                                    witness=[], script='', gtext='', confirmed=True, native=None, report_as=None))
    except Exception as e:
        out['inconclusive'].append(f'kani codec: {e!r}')
    return out

def main(argv):
    prop = argv[1]
    if prop == 'replay': return replay(argv[2])
    if prop == 'C02':
        return run_parser_property(prop, side_jobs={'builder_histories': c02_histories, 'kani_cst_index_codec': c02_kani})
    if prop in ('C01', 'C03', 'C06', 'C05'):
        return run_parser_property(prop)
    if prop == 'C04':
        return run_parser_property(prop, evals=['C04auto'])
    if prop == 'C08':
        return run_parser_property(prop, evals=['C08', 'C04auto:C08', 'C05:C08'])
    if prop == 'C16':
        return run_parser_property(prop, job=props.c16_job,
                                   extra=lambda rs: dict(differential_comparisons=sum(r.get('comparisons', 0) for r in rs), extra_forks_on_trivia_free_side=sum(r.get('extra_forks', 0) for r in rs)))
    if prop == 'C12':
        from . import c12
        return c12.main(tier(), seed())
    if prop == 'C19':
        from . import c19
        return c19.main(tier(), seed())
    if prop == 'C13':
        from . import c13
        return c13.main(tier(), seed())
    if prop == 'C15':
        def gsel(t, sd):
            gs = select('C15', t, sd)
            gs = [g for g in gs if g.meta.get('family') not in ('pairs', 'zero-progress') and not g.name.endswith('_sym')]
            if t == 'quick':      # every third coverage grammar + all curated/random
                cov = [g for g in gs if g.meta.get('family') == 'coverage']
                gs = [g for g in gs if g.meta.get('family') != 'coverage'] + cov[sd % 3::3]
            return gs
        from . import c15s
        return run_parser_property(prop, job=props.c15_job, N={'quick': 3, 'thorough': 4}[tier()], grammars=gsel, side_jobs={'statelessness_side_condition': c15s.state_job},
                                   extra=lambda rs: dict(differential_comparisons=sum(r.get('comparisons', 0) for r in rs),
                                                         permutations=sum(r.get('permutations', 0) for r in rs),
                                                         byte_identical_generated_code=sum(r.get('identical_outputs', 0) for r in rs)))
    if prop == 'C07':
        from . import c07
        return run_parser_property(prop, job=c07.c07_job, N={'quick': 5, 'thorough': 7}[tier()],
                                   grammars=lambda t, sd: c07.family(sd, {'quick': 12, 'thorough': 120}[t]),
                                   extra=lambda rs: dict(operator_expressions_checked=sum(r.get('sentences', 0) for r in rs),
                                                         oracle_selfchecks=sum(r.get('oracle_selfchecks', 0) for r in rs),
                                                         trees_enumerated_for_selfcheck=sum(r.get('trees_enumerated', 0) for r in rs)))
    print('unknown property', prop); return 2


def replay(path):
    """rebuild the native harness from the current /repo and re-evaluate the recorded counterexample concretely (dev + release)"""
    body = json.load(open(path))
    prop = body['property']
    if prop == 'C12':
        from . import c12
        exe = c12.build_fe_native()
        if body.get('text'): o = c12.fe_native_run(exe, ['TEXT ' + body['text'].encode().hex()])[0]
        else: o = c12.fe_native_run(exe, [' '.join(body['tokens'])])[0]
        bad = bool(o.get('panic') or o.get('bad_spans') or o.get('sema_panic'))
        print(json.dumps(o)[:1500]); print('REPRODUCED' if bad else 'property holds on this input now')
        return 1 if bad else 0
    if body.get('grammar_name') in ('CstData builder histories', 'CstIndex codec (Kani)'):
        # internal-state findings on the real builder code: re-run the symbolic history exploration / the Kani proof on the current tree
        r = (c02_histories if 'histories' in body['grammar_name'] else c02_kani)('quick')
        bad = [v for v in r['viol'] if v['kind'] == body.get('kind')]
        print('recorded history:', body.get('grammar', '')[:500])
        print('REPRODUCED: ' + bad[0]['detail'][:500] if bad else 'the recorded kind of violation no longer occurs')
        return 1 if bad else 0
    if body.get('entry') == 'compile-twice':
        from . import c15s
        o = c15s.replay_twice(body['grammar']); print(json.dumps(o))
        bad = o.get('same') is False
        print('REPRODUCED: two runs of lelwel::compile in one process differ' if bad else 'both runs produce byte-identical generated code now')
        return 1 if bad else 0
    if prop == 'C19':
        from . import c19
        v = dict(kind=body['kind'], model=(body['flags'], body['environment']))
        ok = c19.confirm_native(v); print(v.get('native')); print('REPRODUCED' if ok else 'property holds for this configuration now')
        return 1 if ok else 0
    if prop == 'C13':
        from . import c12
        exe = c12.build_fe_native(); o = c12.fe_native_run(exe, [' '.join(body['tokens'])])[0]
        print(json.dumps(o)[:1500]); print('recorded detail:', body.get('detail', '')[:600]); return 0
    g = gram.parse_simple(body['grammar'], name=body.get('grammar_name', 'replay'))
    h, err = harness.make_harness(body['grammar'], dynskip=body.get('dynskip'))
    if h is None:
        print('grammar is rejected / does not compile now:', err[0], (err[1] or '')[:300]); return 0
    toks = [h.tokens[k] for k in body['witness']]
    rc = 0
    for rel in (False, True):
        o = harness.run_native(h, [(body['entry'], toks, body.get('callback_script') or '')], release=rel, timeout=20)[0]
        kind = body.get('kind')
        if prop == 'C16':
            v = props.Violation('C16', kind, g, type('R', (), dict(entry=body['entry'], n=len(toks), witness=body['witness'], script=body.get('callback_script') or ''))(), '')
            holds = not props.confirm_c16(h, g, v)
        elif prop == 'C07':
            from . import c07
            v = props.Violation('C07', kind, g, type('R', (), dict(entry=body['entry'], n=len(toks), witness=body['witness'], script=''))(), '')
            holds = not c07.confirm_c07(h, g, v, c07.branch_table(g))
        elif prop == 'C08':
            if o.get('panic') or o.get('timeout') or o.get('crash'): holds = None
            elif kind == 'action-while-choice-active': holds = not any(e[0] == 3 and e[4] for e in o['log'])
            elif kind == 'choice-flag-leaks': holds = not ((o['log'] and o['log'][-1][4]) or any(d[3] for d in o['diags']))
            elif kind == 'diagnostic-after-backtrack':
                ps = [d[2] for d in o['diags'] if d[4] == 0]; holds = not any(b <= a for a, b in zip(ps, ps[1:]))
            else: holds = None
        else:
            holds = props.native_holds(h, g, prop, body['entry'], body['witness'], o)
        print(f"{'release' if rel else 'dev'}: input {' '.join(toks)!r} -> property {prop} {'HOLDS' if holds else ('VIOLATED' if holds is False else 'not decidable from outputs alone (internal-state finding): see recorded detail')}")
        if holds is False: rc = 1
    print('recorded detail:', body.get('detail', '')[:400])
    return rc

if __name__ == '__main__':
    try:
        rc = main(sys.argv)
    except Unsupported as e:
        # fail closed: something the engine cannot execute (unmodelled callee, unknown MIR form) is never a verdict
        print(f'INCONCLUSIVE: {e}'); rc = 2
    sys.exit(rc)
