"""The grammar corpus: curated micro-grammars (one per construct / delicate interaction), near-miss candidates the
unchanged lelwel rejects, a systematic analysis-coverage family, and seeded random grammars.  Everything is held as the
independent model of mirse.gram and printed to .llw text at run time; acceptance is decided by the llw built from /repo."""
import random, itertools
from .gram import *

CURATED_TEXT = {
# ---- plain EBNF
'seq': "token A B C; start s; s: A B C;",
'toy': "token A B C D E Ws; skip Ws; start s; s: A t* [D] E; t: B C;",
'alt': "token A B C D Ws; skip Ws; start s; s: (A | B x | C) D; x: A | B;",
'opt_nest': "token A B C D; start s; s: [A [B]] C [D];",
'star_nest': "token A B C D; start s; s: (A (B C)* D)*;",
'plus': "token A B C Ws; skip Ws; start s; s: A+ (B C)+;",
'plus_in_opt': "token A B C; start s; s: [A+ B] C;",
'nullable_rule': "token A B C; start s; s: x y C; x: [A]; y: B*;",
'nullable_prefix': "token A B C D; start s; s: (x | C) D; x: [A] B;",
'nullable_alt': "token A B C D; start s; s: (A | [B]) C D*;",
'follow_thru': "token A B C D E; start s; s: x D | E; x: A y; y: [B] [C];",
'deep': "token A B C D Ws; skip Ws; start s; s: a; a: A b | b; b: B c*; c: C [D];",
'recursive': "token L R A; start s; s: x; x: L x R | A;",
'rec_tail_star': "token L R N B; start s; s: e; e: L e R | N B*;",
'rec_tail_opt': "token L R N B C; start s; s: e C; e: L e R | N [B];",
'rec_tail_plus_mid': "token L R N B; start s; s: e; e: N B+ | L e R;",
'rec_tail_star_indirect': "token L R N B; start s; s: e; e: L f R | N B*; f: e;",
'rec_loop_tail': "token L R C N B; start s; s: l; l: L (C l)* R | N [B];",
'rec_opt_tail': "token L R C N B; start s; s: l; l: L [C l] R | N B*;",
'rec_group_tail': "token L R C N B; start s; s: l; l: L (C l) R | N [B];",
'rec_plus_tail_indirect': "token L R C N B; start s; s: l; l: L (C m)+ R | N [B]; m: l;",
'list_sep': "token A C L R Ws; skip Ws; start s; s: l; l: L [x (C x)*] R; x: A | l;",
'two_skips': "token A B C Ws Cm; skip Ws Cm; start s; s: (A B)* C;",
# ---- parts
'parts': "token A B C D Ws; skip Ws; start s; part x y; s: A x* D; x: B y; y: C [A];",
'parts_inner_loop': "token A B C D E; start s; part p; s: q E; p: q D; q: A B* [C];",
'parts_inner_opt': "token A B C D E; start s; part p; s: q E q; p: A q D; q: B [C] ;",
'parts_inner_plus': "token A B C D E Ws; skip Ws; start s; part p r; s: p E; p: q D; r: C q q; q: A (B C)+ ;",
'part_shared': "token A B C; start s; part t; s: t A t; t: B C*;",
# ---- node operators
'rename': "token A B C; start s; s: x*; x: A @xa | B C @xb | C;",
'rename_to_rule': "token A B C D; start s; s: x D [y]; x: A @y | B; y: C;",
'create_named_rule': "token A B C D; start s; s: <1 A B 1>y D [y]; y: C;",
'rename_back': "token A B C; start s; s: r+; r: A @x [B @r] C;",
'rename_back_alt': "token A B C D; start s; s: r D; r: A @x (B @r | C) ;",
'rename_loop': "token A B C; start s; s: x C; x: A (B @many)* ;",
'elide_cond': "token A B C; start s; s: x x; x: A ^ | B C;",
'elide_rule': "token A B C Ws; skip Ws; start s; s: x* C; x^: A | B y; y: A A;",
'elide_star': "token A B C; start s; s: (x C)+; x: A (B ^)*;",
'elide_plus': "token A B C; start s; s: x C; x: A (B ^)+;",
'elide_star_alt': "token A B C D; start s; s: x D; x: A (B | C ^)*;",
'elide_opt_star': "token A B C D; start s; s: x D; x: A [B (C ^)*];",
'elide_opt': "token A B C; start s; s: x C; x: A [B ^];",
'create': "token A B C D Ws; skip Ws; start s; s: A <1 B C 1>bar D;",
'create_nested': "token A B C D; start s; s: <1 A <2 B 2>inner C 1>outer D;",
'create_seq': "token A B C D; start s; s: <1 A 1>p <2 B C 2>q D;",
'create_twice': "token A B C; start s; s: <1 A 1>p 1>q B C;",
'create_loop_inner': "token A B C; start s; s: <1 A (B <2 C 2>y 1>x)* C;",
'create_marker_then_whole': "token A B C D; start s; s: r D; r^: <1 A 1>x B [C >];",
'create_opt': "token A B C D Ws; skip Ws; start s; s: x D; x: A <1 B [C 1>bc];",
'create_loop': "token A B C D; start s; s: x D; x: <1 A (B 1>ab)* C;",
'create_whole': "token A B C Ws; skip Ws; start s; s: x C; x^: A [B >];",
'create_whole_named': "token A B C; start s; s: x* C; x^: A [B >pair];",
'create_in_elided_cond': "token A B C D; start s; s: x D; x: <1 A [B 1>ab] [C ^];",
'create_after_rule': "token A B C D; start s; s: <1 y B 1>yb D; y: A [C];",
'actions': "token A B C Ws; skip Ws; start s; s: #1 A #2 x* #3 C #1; x: B #1;",
'action_alt': "token A B C; start s; s: (A #1 | B #2)* C;",
'return': "token L R A B Ws; skip Ws; start s; s: x* B; x: L & A* R;",
'return_elide': "token L R A B; start s; s: x* B; x: L & A R ^ | A;",
'return_cond': "token L R A B; start s; s: x B; x: L & (A ^ | R);",
# ---- predicates / assertions
'pred_alt': "token A B C; start s; s: (?1 A B | A C) C;",
'pred_opt': "token A B C Ws; skip Ws; start s; s: [?1 A] (?2 B)* C;",
'pred_plus': "token A B C; start s; s: (?1 A B)+ C;",
'ptrue_else': "token I E X; start s; s: st; st: I st [?t E st] | X;",
'ptrue_alt': "token A B C; start s; s: (?t A B | A C | C) C;",
'assert_plain': "token A B C; start s; s: A !1 B !2 C;",
'pred_nullable_follow': "token A B C; start s; s: x C; x: ?1 [A] | B;",
# ---- ordered choice
'choice_simple': "token A B C D; start s; s: (A B / A C) D;",
'choice_commit_in_alt': "token A B C D E; start s; s: A (B ~ | C) D / A C E;",
'choice_commit_in_opt': "token A B C D E; start s; s: A [B ~] D / A B E;",
'choice_commit_in_rule': "token A B C D E; start s; s: x D / A C E; x: A (B ~ | C);",
'choice_commit': "token A B C D; start s; s: (A ~ B / A C) D;",
'choice_rules': "token A B C D Ws; skip Ws; start s; s: (x / y) D; x: A B; y: A C;",
'choice_shared': "token A B C; start s; s: (t B / t C) t; t: A;",
'choice_err_pending': "token A B C D; start s; s: A (B C / D);",
'choice_three': "token A B C D E; start s; s: (A B / A C / A D) E;",
'choice_loop_distinct': "token A B C D E; start s; s: (A B / C D)* E;",
'choice_opt_distinct': "token A B C D E; start s; s: [A B / C D] E;",
'choice_loop': "token A B C D; start s; s: (A B* C / A B* D)* D;",
'choice_assert': "token A B C D; start s; s: (A !1 B / A B C) D;",
'choice_readme': "token Id Num Eq Semi LPar RPar Ws; skip Ws; start top; top: stmt; stmt^: decl_stmt / expr_stmt; decl_stmt: type Id ~ [Eq expr] Semi; expr_stmt: expr Semi; expr: Id | Num | LPar (type RPar !1 ~ expr / expr RPar); type: Id;",
'choice_rename_to_rule': "token A B C D E; start s; s: (x D / x E) [y]; x: A @y | B; y: C;",
'choice_create_named_rule': "token A B C D E; start s; s: (x D / x E) [y]; x: <1 A B 1>y; y: C;",
'choice_rename_early': "token A B C D; start s; s: x D; x: (A @ab B / A C);",
'choice_elide_early': "token A B C D; start s; s: x D; x: (A ^ B / A C);",
'choice_create_early': "token A B C D; start s; s: x D; x: (<1 A 1>a B / A C);",
'choice_rename': "token A B C D; start s; s: x D; x: (A B @ab / A C @ac);",
'choice_elide': "token A B C D; start s; s: x D; x: (A B ^ / A C);",
'choice_create': "token A B C D; start s; s: (<1 A B 1>ab / A C) D;",
'choice_create_outer_commit': "token A B C D; start s; s: <1 A (B ~ 1>x C / B D);",
'choice_create_outer_last': "token A B C D; start s; s: <1 A (B C / B 1>x D);",
'choice_create_whole_last': "token A B C D; start s; s: r D; r^: A (B C / B > D);",
'choice_nested_rule': "token A B C D; start s; s: (x B / x C) D; x: A y; y: [A];",
'choice_pratt_alt': "token N P A; start s; s: (e A / N P A); e: e P e | N;",
'choice_pratt_prefix': "token N P M A B; start s; s: (e A / M N P B); e: e P e | M e | N;",
'choice_pratt': "token N P A B; start s; s: (e A / e B); e: e P e | N;",
# ---- Pratt rules
'calc': "token Num Plus Minus Star Slash Pow LPar RPar Ws; skip Ws; right Pow; start calc; calc: expr; expr: expr Pow expr | (Minus | Plus) expr | expr (Star | Slash) expr | expr (Plus | Minus) expr | Num | LPar expr RPar;",
'pratt_left': "token N P M; start s; s: e; e: e M e | e P e | N;",
'pratt_right1': "token N P H; right H; start s; s: e; e: e H e | e P e | N;",
'pratt_right2': "token N P H Q; right H Q; start s; s: e; e: e (H | Q) e | e P e | N;",
'pratt_right3': "token N P H Q W; right H Q W; start s; s: e; e: e (H | Q | W) e | e P e | N;",
'pratt_postfix': "token N P X L R; start s; s: e; e: e X | e P e | e L e R | N;",
'pratt_prefix': "token N P M T; start s; s: e; e: e T e | M e | e P e | N;",
'pratt_rename': "token N P T L R Ws; skip Ws; start s; s: e; e: e T e @mul | e P e @add | N @num | L e R @paren | lit ^; lit: R R;",
'pratt_rename_mixed': "token N P L R; start s; s: e; e: e P e | e L e R @index | N;",
'pratt_rename_mixed2': "token N P M X T; start s; s: e; e: e X @post | e T e | M e @neg | e P e @add | N;",
'pratt_rename_atom_only': "token N P Q L R; start s; s: e; e: e P e | e Q e | N @num | L e R;",
'pratt_call': "token N L R C P; start s; s: e; e: e P e @bin | e args @call | N @name; args: L [e (C e)*] R;",
'pratt_in_loop': "token N P S; start s; s: (e S)*; e: e P e | N;",
'pratt_pred': "token N P M; start s; s: e; e: ?1 e M e | e P e | N;",
'pratt_pred_atom': "token N P M; start s; s: e; e: e P e | ?1 N | M;",
'pratt_pred_atom_shared': "token N P M; start s; s: e; e: e P e | ?1 N M | N;",
'pratt_pred_atom_prefix': "token N P M; start s; s: e; e: e P e | ?1 M e | N | M N;",
'pratt_pred_atom_in_choice': "token N P M Q; start s; s: (e M / N Q) Q; e: e P e | ?1 N | Q;",
'choice_ret_committed': "token A B C D; start s; s: r D; r: A* (B ~ & C ^ / B D);",
'choice_ret_second': "token A B C D; start s; s: r D; r: A (B C / & B ^);",
'choice_ret_inner_rule': "token A B C D; start s; s: (r C / r D) D; r: A & B;",
'ret_after_call_loop': "token A B C D E; start s; s: x E; x: A y & C D; y: B (D B)*;",
'ret_after_opt': "token A B C D E; start s; s: x E; x: A [B] & C D;",
'ret_after_star': "token A B C D E; start s; s: x E; x: A B* & C D;",
'ret_after_plus_group': "token A B C D E; start s; s: x E; x: A (B D)+ & C D;",
'ret_after_nullable_call': "token A B C D E; start s; s: x E; x: A y & C D; y: [B];",
'commit_after_call': "token A B C D E; start s; s: x E; x: (A y ~ C / A E) D; y: B (D B)*;",
'commit_after_opt': "token A B C D E; start s; s: x E; x: (A [B] ~ C / A E) D;",
'commit_after_star': "token A B C D E; start s; s: x E; x: (A B* ~ C / A E) D;",
'ret_after_call_shared': "token A B C D E G; start s; s: x E; x: A y & C D | G y D; y: B (E B)*;",
'ret_after_opt_shared': "token A B C D E G; start s; s: x E; x: A y & C D | G y D; y: B [E];",
'commit_after_call_shared': "token A B C D E G; start s; s: x E; x: (A y ~ C / A E) D | G y D; y: B (E B)*;",
'ret_after_rule': "token A B C; start s; s: x*; x: y & B; y: A;",
'ret_in_choice_after_token': "token A B C D E; start s; s: x E; x: (A & B D / A E) C;",
'ret_in_loop_body': "token A B C; start s; s: x C; x: A (B & A)*;",
'pred_loop_body': "token A B C D; start s; s: x D; x: (?1 A B | C)*;",
'pred_loop_call': "token A B C D; start s; s: y* D; y: ?1 A B | C;",
'pred_loop_call_two': "token A B C D; start s; s: y* D; y: ?1 A B | ?2 C A;",
'pred_plus_tail': "token A B C D; start s; s: (D y)+ C; y: ?1 A B | C;",
'pred_opt_follow': "token A B C D; start s; s: [y] A D; y: ?1 A B | C;",
'pred_loop_nested': "token A B C D; start s; s: (y D)* C; y: (?1 A | B)* ;",
'choice_createanon': "token A B C D E G; start s; s: x E; x: (A <1 B [C 1>] D / A E) G;",
'choice_createanon_loop': "token A B C D E G; start s; s: x E; x: (A <1 B (C 1>)* D / A E) G;",
'choice_createwhole_elided': "token A B C D E G; start s; s: x E; x^: (A B [C >] D / A E) G;",
'unused_rule': "token A B; start s; s: A; u: B u | A;",
'unused_rule_referencing': "token A B C; start s; s: A x; x: B; u: x C;",
'pred_twice': "token A B C; start s; s: (?1 A | B) (?1 A | C);",
'pred_twice_rules': "token A B C; start s; s: (?1 A | B) x; x: ?1 A | C;",
'assert_twice': "token A B; start s; s: !1 A !1 B;",
'action_twice': "token A B; start s; s: #1 A #1 B #2;",
'pratt_only_left': "token N X Y; start s; s: e; e: e X | e Y | N;",
}

# candidates that the UNCHANGED lelwel rejects for a reason one of the properties relies on; if a changed sema lets one
# through, its emitted parser is explored like any other grammar
NEAR_MISS_TEXT = {
# return before the rule has consumed a token (rejected as E037 since fix F14): a loop around such a rule never terminates
'nm_ret_head_in_loop': "token A B; start s; s: x*; x: & A B;",
'nm_ret_head_in_loop_follow': "token A B C; start s; s: x* C; x: & A B;",
'nm_ret_head_in_plus': "token A B C; start s; s: C x+ C; x: & A B;",
'nm_ret_head_in_opt': "token A B C; start s; s: C [x] C; x: & A B;",
'nm_ret_head_nested_rule': "token A B C; start s; s: (y C)*; y: x; x: & A B;",
'nm_ret_after_nullable': "token A B C; start s; s: x*; x: [C] & A B;",
'nm_ret_after_nullable_rule': "token A B C; start s; s: x*; x: y & B; y: [A];",
# return operator inside an alternative that can still be abandoned (rejected as E036 since fix F12)
'nm_choice_ret_first': "token A B C D Ws; skip Ws; start s; s: r D; r: A* (& B ^ / B C);",
'nm_choice_ret_first_plain': "token A B C D; start s; s: r D; r: A (& B / B C);",
'nm_choice_ret_first_elided': "token A B C D; start s; s: r D; r^: A* (& B / B C);",
'nm_choice_ret_nested': "token A B C D; start s; s: r D; r: A* ([& B] C / B D);",
'nm_crossing': "token A B C; start s; s: <1 A <2 B 1>x 2>y C;",
'nm_crossing_opt': "token A B C; start s; s: <1 A <2 B [C 1>x] 2>y;",
'nm_crossing_loop': "token A B C; start s; s: <1 A <2 (B 2>y 1>x)* C;",
'nm_crossing_after_loop': "token A B C; start s; s: <1 A <2 B (C 1>x)* 2>y;",
'nm_crossing_alt': "token A B C; start s; s: <1 A (<2 B 1>x 2>y | C);",
'nm_leftrec_choice': "token A B C; start s; s: x; x: A B / x C;",
'nm_leftrec_choice_first': "token A B C; start s; s: x; x: x C / A B;",
'nm_leftrec_opt': "token A B; start s; s: x B; x: [x] A;",
'nm_leftrec_star': "token A B; start s; s: x B; x: x* A;",
'nm_leftrec_pred_cycle_behind_start': "token A B C D E; start s; s: y B; y: ?1 z A | C; z: ?2 y D | E;",
'nm_leftrec_pred_cycle_two_entries': "token A B C D E; start s; s: y B | z B; y: ?1 z A | C; z: ?2 y D | E;",
'nm_leftrec_choice_cycle_behind_start': "token A B C D E; start s; s: w B; w: y; y: z A / C; z: y D / E;",
'nm_leftrec_pred_indirect': "token A B C D; start s; s: x; x: ?1 y C | A B; y: x D;",
'nm_leftrec_indirect_nullable': "token A B; start s; s: x B; x: y x A | B; y: [A];",
'nm_choice_create_outer': "token A B C D; start s; s: <1 A (B 1>x C / B D);",
'nm_choice_create_whole': "token A B C D; start s; s: r D; r^: A (B > C / B D);",
'nm_create_whole_then_marker': "token A B C D; start s; s: r D; r^: p <1 B > C 1>x; p: A A;",
'nm_action_after_partial_commit': "token A B C D E; start s; s: A (B ~ | C) #1 D / A C E;",
'nm_action_after_opt_commit': "token A B C D E; start s; s: A [B ~] #1 D / A B E;",
'nm_leftrec_ptrue_indirect': "token A B C D; start s; s: x; x: ?t y C | A B; y: x D;",
'nm_leftrec_ptrue_opt': "token A B C; start s; s: x C; x: [?t x A] B;",
'nm_leftrec_ptrue_star': "token A B C; start s; s: x C; x: (?t x A)* B;",
'nm_leftrec_pred_star': "token A B C; start s; s: x C; x: (?1 y A)* B; y: x;",
'nm_crossing_inner_marker_opt': "token A B C D E; start s; s: <1 A <2 B [C 1>x <3 D 3>z] E 2>y;",
'nm_crossing_inner_marker_star': "token A B C D E; start s; s: <1 A <2 B (C 1>x <3 D 3>z)* E 2>y;",
'nm_crossing_inner_marker_alt': "token A B C D E; start s; s: <1 A <2 B (C 1>x <3 D 3>z | D) E 2>y;",
'nm_crossing_inner_marker_paren': "token A B C D E; start s; s: <1 A <2 B (<3 C 1>x D 3>z) E 2>y;",
'nm_crossing_inner_two_markers': "token A B C D E; start s; s: <1 A <2 B [<3 C <4 D 1>x 4>w 3>z] E 2>y;",
'nm_ll1_in_pratt_op_opt': "token N P A; start s; s: e; e: e P [A] A | N;",
'nm_ll1_in_pratt_op_star': "token N P A; start s; s: e; e: e P A* A | N;",
'nm_ll1_in_pratt_op_alt': "token N P A B; start s; s: e; e: e P (A | A B) | N;",
'nm_ll1_in_pratt_atom_opt': "token N P A; start s; s: e; e: e P e | [A] A N;",
'nm_ll1_in_pratt_postfix': "token N P A; start s; s: e; e: e P [A] | e A | N;",
'nm_ll1_in_choice_alt': "token A B C; start s; s: (A [B] B / A C);",
'nm_ll1_in_loop_body': "token A B C; start s; s: (A [B] B)* C;",
'nm_ll1_in_opt_body': "token A B C; start s; s: [A B* B] C;",
'nm_ll1_in_part': "token A B C; start s; part p; s: p C; p: A [B] B;",
'nm_rec_noconsume': "token A B; start s; s: x B; x: [A] x | B;",
'nm_indirect_leftrec': "token A B; start s; s: x; x: y A | B; y: x B | A;",
'nm_mixed_assoc': "token N P H; right H; start s; s: e; e: e (P | H) e | N;",
'nm_elide_leftrec': "token N P; start s; s: e; e: e P e ^ | N;",
'nm_create_before_mark': "token A B; start s; s: 1>x A <1 B;",
'nm_create_other_branch': "token A B C; start s; s: (A <1 B | C 1>x) C;",
'nm_create_whole_pratt': "token N P; start s; s: e; e: e P e > | N;",
'nm_nested_choice': "token A B C D; start s; s: ((A B / A C) D / A D);",
'nm_nested_choice_rule': "token A B C D; start s; s: (x D / A D); x: (A B / A C);",
'nm_action_in_choice': "token A B C; start s; s: (A #1 B / A C);",
'nm_action_in_choice_rule': "token A B C; start s; s: (x B / x C); x: A #1;",
'nm_return_start': "token A B; start s; s: A & B;",
'nm_pred_position': "token A B; start s; s: A ?1 B;",
'nm_ll1_alt': "token A B C; start s; s: A B | A C;",
'nm_ll1_star': "token A B; start s; s: A* A B;",
'nm_ll1_opt': "token A B; start s; s: [A] A B;",
'nm_ll1_nullable_loop': "token A B; start s; s: ([A])* B;",
'nm_ll1_follow': "token A B C; start s; s: x A; x: B [A];",
'nm_pratt_follow': "token N P; start s; s: e P; e: e P e | N;",
'nm_ll1_alt_nullable_follow': "token X Y Z; start s; s: ([X] | Y) Y Z;",
'nm_ll1_alt_nullable_follow_rule': "token X Y Z; start s; s: (a | Y) Y Z; a: [X];",
'nm_ll1_alt_both_nullable': "token A B C; start s; s: ([A] | [B]) C;",
'nm_ll1_alt_nullable_star': "token A B C; start s; s: (A* | B) A C;",
'nm_ll1_alt_via_rules': "token A B C; start s; s: x | y; x: A B; y: A C;",
'nm_ll1_alt_nested': "token A B C D; start s; s: (A | (B | A C)) D;",
'nm_ll1_plus_follow': "token A B; start s; s: A+ A B;",
'nm_ll1_star_nested_follow': "token A B C; start s; s: (A [B])* B C;",
'nm_ll1_opt_nullable_body': "token A B; start s; s: [[A]] B;",
'nm_ll1_opt_follow_rule': "token A B C; start s; s: x A C; x: B [A];",
'nm_ll1_star_follow_rule': "token A B C; start s; s: x A C; x: B A*;",
'nm_ll1_pratt_operator_follow': "token N P Q; start s; s: e P Q; e: e P e | N;",
'nm_ll1_pratt_two_same_op': "token N P; start s; s: e; e: e P e | e P | N;",
'nm_ll1_pratt_atom_conflict': "token N P; start s; s: e; e: e P e | N | N P;",
'nm_ll1_part_follow': "token A B C; start s; part p; s: p A C; p: B [A];",
'nm_unproductive_loop': "token A B; start s; s: x; x: A x;",
'nm_empty_loop_body': "token A B; start s; s: (x)* B; x: [A];",
'nm_choice_conflict_follow': "token A B; start s; s: x* A; x: (A B / A A);",
}

def curated():
    out = []
    for name, txt in CURATED_TEXT.items():
        g = parse_simple(txt, name=name); g.meta['family'] = 'curated'; out.append(g)
    return out

def near_miss():
    out = []
    for name, txt in NEAR_MISS_TEXT.items():
        g = parse_simple(txt, name=name); g.meta['family'] = 'near_miss'; out.append(g)
    return out

# ---------------------------------------------------------------- analysis-coverage family
def coverage_family():
    """tiny grammars in which acceptance of some input <= 4 tokens depends on one path of the first/follow/predict/
    recovery computation: decision construct x way a token set reaches it"""
    out = []
    # ways a (possibly nullable) prefix X (tokens A/B) can precede the deciding token
    reach = {
        'direct': ("{K}", ""),
        'nullable_prefix': ("x {K}", "x: [A];"),
        'nullable_star': ("x {K}", "x: A*;"),
        'nullable_two': ("x y {K}", "x: [A]; y: [B];"),
        'via_rule': ("z", "z: {K};"),
        'via_two_rules': ("z", "z: w; w: {K};"),
        'nested_opt': ("[[A] B] {K}", ""),
        'plus_then': ("A+ {K}", ""),
    }
    decide = {
        'alt_branch': "s: ({R} D | E) F;",
        'star_body': "s: ({R} D)* F;",
        'plus_body': "s: ({R} D)+ F;",
        'opt_body': "s: [{R} D] F;",
        'alt_in_rule': "s: q F; q: {R} D | E;",
        'star_follow': "s: E* {R} F;",
        'opt_follow': "s: [E] {R} F;",
    }
    i = 0
    for dn, dt in decide.items():
        for rn, (rt, extra) in reach.items():
            body = dt.replace('{R}', rt.replace('{K}', 'C'))
            ex = extra.replace('{K}', 'C')
            txt = f"token A B C D E F; start s; {body} {ex}"
            try:
                g = parse_simple(txt, name=f'cov_{dn}_{rn}')
            except SyntaxError:
                continue
            g.meta['family'] = 'coverage'; out.append(g); i += 1
    # recovery-set shapes: loops nested in rules reached through one/two references, with a part
    rec = {
        'rec_inner_loop': "token A B C D E F; start s; s: x E F; x: A (B C)* D;",
        'rec_two_refs': "token A B C D E F; start s; s: x E x F; x: A (B)* ;",
        'rec_nested': "token A B C D E F; start s; s: (A x D)* F; x: (B [C])* E;",
        'rec_part': "token A B C D E F; start s; part x; s: A x F; x: (B C)* D;",
        'rec_opt_in_loop': "token A B C D E F; start s; s: (A [B C] D)* E F;",
        'rec_alt_in_loop': "token A B C D E F; start s; s: ((A | B C) D)* (E | F);",
        'rec_pratt_args': "token A B C D E F; start s; s: e F; e: e A e | e B [e (C e)*] D | E;",
    }
    for n, t in rec.items():
        g = parse_simple(t, name='cov_' + n); g.meta['family'] = 'coverage'; out.append(g)
    return out

# ---------------------------------------------------------------- contexts x features product family
PRODUCT_CONTEXTS = {
    'plain': 's: x E; x: A {F} D;',
    'elided': 's: x E; x^: A {F} D;',
    'condelide': 's: x E; x: A {F} (D ^ | E B);',
    'loop': 's: x E; x: (A {F} D)* G;',
    'opt': 's: x E; x: [A {F} D] G;',
    'plus': 's: x E; x: (A {F})+ G;',
    'alt': 's: x E; x: (A {F} D | B) G;',
    'choice1': 's: x E; x: (A {F} D / A E) G;',
    'choice2': 's: x E; x: (A E / A {F} D) G;',
    'choice1early': 's: x E; x: (A {F} D D / A B) G;',
    'prattatom': 's: e E; e: e G e | A {F} D;',
    'prattop': 's: e E; e: e G {F} e | A;',
    'part': 'part x; s: E x E; x: A {F} D;',
    'twocalls': 's: x E x; x: A {F} D;',
    'loopbody': 's: x E; x: ({F})* G;',            # the construct alone is the loop body: its FOLLOW contains its own FIRST
    'loopcall': 's: y* E; y: {F};',
    'plustail': 's: x E; x: (A {F})+ G;',
}
PRODUCT_FEATURES = {
    'tok': ('B', ''), 'opt': ('[B]', ''), 'star': ('B*', ''), 'plus': ('B+', ''), 'nested': ('[B C*]', ''), 'alt': ('(B | C)', ''),
    'altnull': ('(B | [C])', ''), 'rename': ('B @rn', ''), 'renameopt': ('[B @rn]', ''), 'create': ('<1 B 1>mk', ''),
    'createopt': ('<1 B [C 1>mk]', ''), 'createloop': ('<1 B (C 1>mk)*', ''), 'whole': ('[B >]', ''), 'action': ('#1 B #2', ''),
    'assert': ('!1 B', ''), 'ret': ('& B', ''), 'predopt': ('[?1 B]', ''), 'predstar': ('(?1 B)*', ''), 'ptrue': ('[?t B]', ''),
    'renameback': ('B @rn [C @x]', ''), 'commitalt': ('(B ~ | C)', ''), 'commit': ('B ~ C', ''), 'createouter': ('<1 B [C 1>mk] [B 1>mk2]', ''),
    'createanon': ('<1 B [C 1>]', ''), 'createanonloop': ('<1 B (C 1>)*', ''), 'predalt': ('(?1 B C | C)', ''), 'predalt2': ('(?1 B | ?2 C B)', ''),
    'retaftercall': ('y & C', 'y: B (G B)*;'), 'retafteropt': ('[B] & C', ''), 'retafterstar': ('B* & C', ''),
    'call': ('y', 'y: B [C];'), 'callelided': ('z', 'z^: B | C;'), 'callnullable': ('w', 'w: [B] C*;'),
}
def product_family():
    out = []
    for cn, ctx in PRODUCT_CONTEXTS.items():
        for fn, (snip, extra) in PRODUCT_FEATURES.items():
            txt = f'token A B C D E G Ws; skip Ws; start s; {ctx.replace("{F}", snip)} {extra}'
            try: g = parse_simple(txt, name=f'px_{cn}_{fn}')
            except SyntaxError: continue
            g.meta['family'] = 'product'; out.append(g)
    return out

# ---------------------------------------------------------------- dynamic skipping (user override of predicate_skip)
def dynskip_family():
    """grammars whose parser callbacks override `predicate_skip`: an extra token NL that no rule mentions is skipped or not
    as the environment decides call by call (e.g. line breaks that only count outside of brackets).  When it is not
    skipped it is garbage for the grammar.  Evaluated for tree shape and termination only (C01, C02, C03)."""
    texts = {
        'toy': 's: A t* [D] E; t: B C;', 'nest': 's: x E; x: A y D; y: B z; z: C*;', 'opt_tail': 's: x E; x: A [B] ; ',
        'create': 's: x E; x: <1 A [B 1>mk] D;', 'elide': 's: x E; x: A (B ^ | C);', 'pratt': 's: e E; e: e B e | e C | A;',
        'choice': 's: x E; x: (A B / A C) D;', 'rename': 's: x E; x: A @rn [B];', 'part': 'part x; s: E x E; x: A B*;', 'call_end': 's: (x D)* E; x: A y; y: B | C;',
    }
    out = []
    for n, body in texts.items():
        for ws in (False, True):
            toks = ' '.join(t for t in 'ABCDE' if re.search(r'\b' + t + r'\b', body))
            txt = f'token {toks} NL{" Ws" if ws else ""}; {"skip Ws; " if ws else ""}start s; {body}'
            try: g = parse_simple(txt, name=f'dynskip_{n}{"_ws" if ws else ""}')
            except SyntaxError: continue
            g.meta['family'] = 'dynskip'; g.meta['dynskip'] = 'NL'; g.meta['deep_sentences'] = 0
            if ws: g.meta['bound_delta'] = -1
            out.append(g)
    return out

# ---------------------------------------------------------------- feature pairs
NODE_FEATURES = ('rename', 'renameopt', 'renameback', 'create', 'createopt', 'createloop', 'createanon', 'whole', 'action', 'callelided', 'ret')
def pair_family(all_pairs=False, seed=0):
    """two constructs one after the other in one rule.  Pairs of node-shaping constructs (renames, creations with and without a
    name, whole-rule creation, elided callee, return) are always included: they share per-rule state in the emitted code
    (node_kind variable, markers, elision flag).  The remaining pairs are sampled (a twelfth per seed) unless all_pairs."""
    out = []
    names = list(PRODUCT_FEATURES)
    k = 0
    for f1 in names:
        for f2 in names:
            node_pair = f1 in NODE_FEATURES and f2 in NODE_FEATURES
            k += 1
            if not node_pair and not all_pairs and (k + seed) % 12: continue
            s1, e1 = PRODUCT_FEATURES[f1]; s2, e2 = PRODUCT_FEATURES[f2]
            # the second copy uses other tokens / names so that the two constructs do not collide
            s2 = s2.replace('B', 'H').replace('C', 'K').replace('<1', '<2').replace('1>', '2>').replace('@rn', '@rm').replace('@x', '@xx').replace('mk', 'mq').replace('#1', '#3').replace('#2', '#4').replace('?1', '?3').replace('?2', '?4').replace('!1', '!2')
            e2 = e2.replace('B', 'H').replace('C', 'K').replace('y:', 'yy:').replace('z^:', 'zz^:').replace('w:', 'ww:')
            s2 = {'y': 'yy', 'z': 'zz', 'w': 'ww'}.get(s2, s2)
            for cn, ctx in (('seq', 's: x E; x: A {F1} {F2} D;'), ('elided', 's: x E; x^: A {F1} {F2} D;')):
                if cn == 'elided' and (not node_pair or (k + seed) % 2): continue
                if cn == 'seq' and 'whole' in (f1, f2): continue      # whole-rule creation in a non-elided rule emits code that does not compile (C11, not claimed)
                body = f'{ctx.replace("{F1}", s1).replace("{F2}", s2)} {e1} {e2}'
                txt = 'token ' + ' '.join(t for t in 'ABCDEGHK' if re.search(r'\b' + t + r'\b', body)) + f'; start s; {body}'
                try: g = parse_simple(txt, name=f'pair_{cn}_{f1}_{f2}')
                except SyntaxError: continue
                g.meta['family'] = 'pairs'; g.meta['bound_delta'] = -1; g.meta['deep_sentences'] = 4
                out.append(g)
    return out

# ---------------------------------------------------------------- zero-progress abandonment family
def zero_progress_family():
    """ordered-choice alternatives that can be abandoned at the very position where they began: the LL(1) guard lets the
    alternative in, state is built without consuming a token (nullable rule nodes, open nodes, node markers, actions), and
    then a predicate / assertion says no.  Restoring a snapshot taken at the same token position is the case a
    position-keyed shortcut would skip."""
    heads = {
        'predalt': ('(?1 A | B)', ''), 'assert': ('!1 A', ''), 'nullrule_pred': ('w (?1 A | B)', 'w: C*;'),
        'nullrule_assert': ('w !1 A', 'w: [C];'), 'inner_pred': ('y', 'y: (?1 A | B) C;'), 'inner_nullrule_pred': ('y', 'y: w (?1 A | B); w: C*;'),
        'marker_pred': ('<1 (?1 A | B) [C 1>mk]', ''), 'action_pred': ('#1 (?1 A | B)', ''), 'two_nullrules': ('w v (?1 A | B)', 'w: C*; v: [H];'),
        'elided_inner': ('z', 'z^: w (?1 A | B); w: C*;'),
    }
    ctxs = {'first': 'x: ({H} D / A E) G;', 'second': 'x: (A E / {H} D / A G) G;', 'loop': 'x: ({H} D / A E)* G;', 'elided': 'x^: ({H} D / A E) G;',
            'deep': 'x: (u D / A E) G; u: {H};'}
    out = []
    for cn, ctx in ctxs.items():
        for hn, (head, extra) in heads.items():
            body = f's: x E; {ctx.replace("{H}", head)} {extra}'
            txt = 'token ' + ' '.join(t for t in 'ABCDEGH' if re.search(r'\b' + t + r'\b', body)) + f'; start s; {body}'
            try: g = parse_simple(txt, name=f'zp_{cn}_{hn}')
            except SyntaxError: continue
            g.meta['family'] = 'zero-progress'
            if cn == 'loop': g.meta['bound_delta'] = -1          # the loop context multiplies paths: one token less than the tier's bound
            out.append(g)
    return out

# ---------------------------------------------------------------- parts x constructs family
def parts_family():
    """every construct family also as (or inside) a `part` entry point: parts run with their own end-of-input token, start
    in the middle of the start rule's language and may be nullable"""
    bodies = {
        'choice': 'p: A (B C / B D);',
        'choice_distinct': 'p: (A B / C D) [A];',
        'star': 'p: C*;',
        'opt_loop': 'p: [D] (C D)*;',
        'plus': 'p: (A B)+;',
        'pred_nullable': 'p: ?1 [A] C | D;',
        'pratt': 'p: p C p | p D | A;',
        'create': 'p: <1 A [C 1>ac] D;',
        'elide': 'p: A (C ^ | D);',
        'inner_rule': 'p: q D; q: A C* ;',
        'ret': 'p: A & C* D;',
    }
    uses = {'mid': 's: B p B;', 'loop': 's: (B p)* ;', 'twice': 's: p B p;'}
    out = []
    for bn, body in bodies.items():
        for un, use in uses.items():
            if un != 'mid' and bn not in ('choice', 'star', 'opt_loop', 'inner_rule'): continue
            txt = f'token A B C D Ws; skip Ws; start s; part p; {use} {body}'
            try: g = parse_simple(txt, name=f'part_{bn}_{un}')
            except SyntaxError: continue
            g.meta['family'] = 'parts'; out.append(g)
    return out

# ---------------------------------------------------------------- error recovery x tree insertion family
def recovery_family():
    """constructs that can swallow garbage (option / loop) directly in front of every user of CstData::open_before
    (node creation in an elided rule or in place, whole-rule creation, conditional elision, Pratt operator), the user
    being reached from two call sites with different follow sets so that its inner loop has a smaller recovery set"""
    pres = {'opt': '[A]', 'star': 'A*', 'plus': 'A+', 'optseq': '[A B]'}
    users = {
        'create_elided': ('u', 'u^: <1 B* 1>made C;'),
        'create_inplace': ('u', 'u: <1 B* 1>made C;'),
        'create_whole': ('u', 'u^: B* C [H >];'),
        'cond_elide': ('u', 'u: B* C [H ^];'),
        'pratt': ('u', 'u: u H u | u B | C;'),
        'create_after_loop': ('u', 'u^: B* <1 C* 1>made H;'),
    }
    out = []
    for pn, pre in pres.items():
        for un, (ref_, rule) in users.items():
            # x is called once (its follow {D} is in the recovery set of `pre`), u from two places (its loop only recovers at EOF)
            txt = f'token A B C D E F G H P; start s; s: P x D | E {ref_} F G; x: {pre} {ref_} F; {rule}'
            try:
                g = parse_simple(txt, name=f'rec_{pn}_{un}')
            except SyntaxError:
                continue
            g.meta['family'] = 'recovery'; out.append(g)
    return out

# ---------------------------------------------------------------- seeded random grammars
TOKS = ['A', 'B', 'C', 'D', 'E']

class _Gen:
    def __init__(self, rng, rich):
        self.rng, self.rich = rng, rich
        self.mark = 0; self.pred = 0; self.act = 0

def _atom(g, rules, cur):
    rng = g.rng
    if rng.random() < 0.25:
        cands = [x for x in rules if rules.index(x) > rules.index(cur)]
        if cands: return ref(rng.choice(cands))
    return tok(rng.choice(TOKS))

def _regex(g, depth, rules, cur):
    rng = g.rng; r = rng.random()
    if depth == 0 or r < 0.25: return _atom(g, rules, cur)
    if r < 0.55:
        parts = [_regex(g, depth - 1, rules, cur) for _ in range(rng.choice([2, 2, 3]))]
        if g.rich:
            q = rng.random()
            if q < 0.12 and cur != rules[0]: parts.append(rename('n%d' % rng.randint(1, 2)))
            elif q < 0.20 and cur != rules[0]: parts.append(ELIDE)
            elif q < 0.34 and len(parts) >= 2:
                g.mark += 1; i = rng.randrange(0, len(parts) - 1)
                parts.insert(i, mark(g.mark)); parts.append(create(g.mark, 'n%d' % rng.randint(1, 2)))
            elif q < 0.42: g.act += 1; parts.insert(rng.randrange(0, len(parts) + 1), action(g.act))
            elif q < 0.47 and cur != rules[0]: parts.insert(1, RET)
        return seq(*parts)
    if r < 0.70: return alt(*[_regex(g, depth - 1, rules, cur) for _ in range(rng.choice([2, 2, 3]))])
    if r < 0.76 and g.rich == 2:
        x = tok(rng.choice(TOKS)); y = x if rng.random() < 0.6 else tok(rng.choice(TOKS))
        a = _regex(g, depth - 1, rules, cur); b = _regex(g, depth - 1, rules, cur)
        first = [x, a] + ([COMMIT] if rng.random() < 0.4 else [])
        return choice(seq(*first), seq(y, b))
    body = _regex(g, depth - 1, rules, cur)
    if g.rich and rng.random() < 0.15 and body[0] == 'tok':
        g.pred += 1; body = seq(pred(g.pred), body)
    if r < 0.86: return opt(body)
    if r < 0.94: return star(body)
    return plus(body)

def _pratt(g, name):
    rng = g.rng
    ops = TOKS[1:]; rng.shuffle(ops)
    br = []; right = []
    kinds = rng.sample(['in', 'in', 'pre', 'post'], rng.choice([2, 3]))
    for k, o in zip(kinds, ops):
        if k == 'in':
            br.append(seq(ref(name), tok(o), ref(name), rename('bin')) if rng.random() < 0.6 else seq(ref(name), tok(o), ref(name)))
            if rng.random() < 0.4: right.append(o)
        elif k == 'pre': br.append(seq(tok(o), ref(name), rename('pre')) if rng.random() < 0.6 else seq(tok(o), ref(name)))
        else: br.append(seq(ref(name), tok(o), rename('post')) if rng.random() < 0.6 else seq(ref(name), tok(o)))
    br.append(seq(tok('A'), rename('atom')) if rng.random() < 0.5 else seq(tok('A'), ELIDE))
    return alt(*br), right

def _rregex(rng, depth, rules, cur, consumed):
    """random regex that may refer to ANY rule (recursion included); `consumed` = a token was already matched in this sequence"""
    r = rng.random()
    if depth == 0 or r < 0.30:
        if rng.random() < 0.35:
            cands = [x for x in rules[1:] if consumed or x != cur]
            if cands: return ref(rng.choice(cands))
        return tok(rng.choice(TOKS))
    if r < 0.62:
        n = rng.choice([2, 2, 3]); parts = []
        for k in range(n):
            parts.append(_rregex(rng, depth - 1, rules, cur, consumed or any(p[0] == 'tok' for p in parts)))
        if parts[0][0] != 'tok' and not consumed: parts.insert(0, tok(rng.choice(TOKS)))
        return seq(*parts)
    if r < 0.76: return alt(*[_rregex(rng, depth - 1, rules, cur, consumed) for _ in range(rng.choice([2, 2, 3]))])
    body = _rregex(rng, depth - 1, rules, cur, consumed)
    if body[0] in ('opt', 'star'): body = seq(tok(rng.choice(TOKS)), body)
    q = rng.random()
    return opt(body) if q < 0.4 else (star(body) if q < 0.8 else plus(body))

def recursive_random_grammar(seed, idx):
    """random grammars with recursion through arbitrary positions (self references after a consumed token, mutual
    references, references inside loops/options/alternations), optional part and skip token"""
    rng = random.Random(seed * 7331 + idx * 104729 + 3)
    nr = rng.choice([2, 3, 3])
    rules = [f'r{j}' for j in range(nr)]
    body = {}
    for r in rules:
        body[r] = _rregex(rng, rng.choice([2, 3, 3]), rules, r, False)
    # every non-start rule must be reachable: reference the unreferenced ones from the start rule
    def refs(x, out):
        if x[0] == 'ref': out.add(x[1])
        elif x[0] in ('seq', 'alt'):
            for y in x[1]: refs(y, out)
        elif x[0] in ('opt', 'star', 'plus'): refs(x[1], out)
    seen = set(); refs(body[rules[0]], seen)
    for r in rules[1:]:
        if r not in seen: body[rules[0]] = seq(body[rules[0]], ref(r)); refs(body[r], seen)
    skip = rng.random() < 0.5
    parts = [rules[-1]] if nr >= 2 and rng.random() < 0.3 else []
    G = Grammar(TOKS + (['Ws'] if skip else []), [(r, False, body[r]) for r in rules], rules[0], skip=['Ws'] if skip else [], parts=parts,
                name=f'rrec_{seed}_{idx}')
    G.meta['family'] = 'random-recursive'
    return G

def recursive_template_grammar(seed, idx):
    """constructively recursive grammars: bracketed self reference in various nested positions x atoms with nullable tails
    x contexts of the start rule (recursion almost never survives the LL(1) check when generated blindly)"""
    rng = random.Random(seed * 9176 + idx * 31337 + 17)
    inner = rng.choice(['e', 'e (S e)*', '[e]', '(S e)*', 'e [S e]', '(e S)* e2', 'f', '(S f)+', 'e T* '])
    tail = rng.choice(['', '[T]', 'T*', 'T+', '[T [T]]', '(T | X)*'])
    second = rng.choice(['', '| X e', '| X', '| X [e]', '| X L e R'])
    ctx = rng.choice(['s: e;', 's: (e Z)*;', 's: Z e Z;', 's: e (Z e)*;', 's: [e] Z;', 's: e Z | Z;'])
    frule = rng.choice(['f: e;', 'f: N [T] | L e R;', 'f: e [Z f];'])
    txt = f"token L R N S T X Z{' Ws' if rng.random() < 0.4 else ''}; start s; {ctx} e: L {inner.replace('e2', 'e')} R | N {tail} {second};"
    if 'f' in inner.split() or '(S f)+' in inner: txt += ' ' + frule
    if ' Ws' in txt.split(';')[0]: txt = txt.replace('start s;', 'skip Ws; start s;')
    if rng.random() < 0.25: txt = txt.replace('start s;', 'start s; part e;')
    g = parse_simple(txt, name=f'rtpl_{seed}_{idx}')
    g.meta['family'] = 'recursive-template'
    return g

def random_grammar(seed, idx, rich):
    """rich: 0 = plain EBNF, 1 = + node operators / predicates / actions / return / Pratt, 2 = + ordered choice"""
    rng = random.Random(seed * 100003 + idx * 7919 + rich)
    g = _Gen(rng, rich)
    nr = rng.choice([2, 2, 3])
    rules = [f'r{j}' for j in range(nr)]
    body = {}; rights = []
    for r in rules:
        if rich and r != rules[0] and rng.random() < 0.25:
            body[r], rg = _pratt(g, r); rights += rg
        else:
            body[r] = _regex(g, rng.choice([2, 2, 3]), rules, r)
    for j in range(1, nr):
        body[rules[j - 1]] = seq(body[rules[j - 1]], ref(rules[j]))
    skip = rng.random() < 0.6
    rl = []
    for r in rules:
        el = bool(rich) and r != rules[0] and rng.random() < 0.12 and not is_pratt(r, body[r])
        rl.append((r, el, body[r]))
    G = Grammar(TOKS + (['Ws'] if skip else []), rl, rules[0], skip=['Ws'] if skip else [], right=sorted(set(rights)),
                name=f'rnd{rich}_{seed}_{idx}')
    G.meta['family'] = 'random'
    return G

def has_user_pred(g): return bool(g.features() & {'pred', 'assert'})
def has_choice(g): return 'choice' in g.features()
