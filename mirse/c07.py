"""C07: precedence and associativity of directly left-recursive (Pratt) rules.
Grammar family: one Pratt rule `e` with infix / prefix / postfix / bracketed-postfix branches, any subset of the infix
branches declared `right` (all tokens of the branch), atoms N and `L e R`.  Oracle: declarative conflict-freeness of
the returned tree (no shallow or deep priority/associativity conflict); the conflict-free tree over a yield is unique,
which is re-checked by brute-force enumeration of all trees over the yield (oracle self-check)."""
import random, time, traceback, json
import z3
from . import harness, run, gram, props
from .gram import *
from .mir import Unsupported

OPS = ['P', 'M', 'T', 'D', 'H', 'Q', 'W', 'X', 'Y']

def family_member(rng, idx):
    nb = rng.choice([1, 2, 2, 3, 3, 4])
    ops = OPS[:]; rng.shuffle(ops)
    branches = []; rights = []; used = []
    for b in range(nb):
        kind = rng.choice(['in', 'in', 'in', 'pre', 'post'])
        k = rng.choice([1, 1, 2, 3]) if kind == 'in' else rng.choice([1, 2])
        toks = [ops.pop() for _ in range(min(k, len(ops)))]
        if not toks: break
        used += toks
        o = tok(toks[0]) if len(toks) == 1 else alt(*[tok(t) for t in toks])
        if kind == 'in':
            branches.append(seq(ref('e'), o, ref('e')))
            if rng.random() < 0.45: rights += toks
        elif kind == 'pre': branches.append(seq(o, ref('e')))
        else: branches.append(seq(ref('e'), o))
    branches.append(tok('N'))
    if rng.random() < 0.6: branches.append(seq(tok('L'), ref('e'), tok('R')))
    g = Grammar(['N', 'L', 'R'] + sorted(used), [('s', False, ref('e')), ('e', False, alt(*branches))], 's', right=sorted(rights),
                name=f'pf{idx}')
    g.meta['family'] = 'pratt'
    return g

FIXED = {
 'pf_calc': "token N P M T D H L R; right H; start s; s: e; e: e H e | (M | P) e | e (T | D) e | e (P | M) e | N | L e R;",
 'pf_right1': "token N P H; right H; start s; s: e; e: e H e | e P e | N;",
 'pf_right2': "token N P H Q; right H Q; start s; s: e; e: e (H | Q) e | e P e | N;",
 'pf_right3': "token N P H Q W; right H Q W; start s; s: e; e: e (H | Q | W) e | e P e | N;",
 'pf_right2_low': "token N P H Q; right H Q; start s; s: e; e: e P e | e (H | Q) e | N;",
 'pf_two_right': "token N P H Q; right H Q; start s; s: e; e: e H e | e P e | e Q e | N;",
 'pf_prefix_between': "token N P T M; start s; s: e; e: e T e | M e | e P e | N;",
 'pf_prefix_levels': "token N T M Q; start s; s: e; e: Q e | e T e | M e | N;",
 'pf_prefix_levels_post': "token N X M Q; start s; s: e; e: Q e | e X | M e | N;",
 'pf_prefix_after_postfix': "token N X T M; start s; s: e; e: e X | e T e | M e | N;",
 'pf_prefix_loose': "token N P M; start s; s: e; e: e P e | M e | N;",
 'pf_postfix_loose': "token N P X; start s; s: e; e: e P e | e X | N;",
 'pf_postfix_tight': "token N P X; start s; s: e; e: e X | e P e | N;",
 'pf_call': "token N P L R; start s; s: e; e: e L e R | e P e | N;",
 'pf_single_left': "token N P; start s; s: e; e: e P e | N;",
 'pf_single_left_ops': "token N P M L R; start s; s: e; e: e (P | M) e | N | L e R;",
 'pf_single_postfix': "token N X; start s; s: e; e: e X | N;",
 'pf_single_prefix_infix': "token N P M; start s; s: e; e: M e | N;",
 'pf_all_left': "token N P M T; start s; s: e; e: e T e | e P e | e M e | N;",
}

def family(seed, count):
    out = []
    for name, txt in FIXED.items():
        g = parse_simple(txt, name=name); g.meta['family'] = 'pratt'
        if len(g.tokens) <= 5: g.meta['bound_delta'] = 1        # small operator alphabets: one token more than the tier's bound
        out.append(g)
    rng = random.Random(seed * 7 + 11)
    for i in range(count): out.append(family_member(rng, i))
    # symbol twins: operators declared and referenced (also in `right`) by symbol go through the Regex::Symbol / Str arms
    tw = [gram.symbolize(g, set(g.tokens[1::2]) if i % 2 else set(g.tokens)) for i, g in enumerate(out) if (i + seed) % 3 == 0]
    return out + tw

# ---------------------------------------------------------------- branch table from the model (not from binding_power)
def branch_table(g):
    body = g.rule('e')
    tab = []
    for rank, b in enumerate(body[1]):
        xs = [x for x in (b[1] if b[0] == 'seq' else (b,)) if x[0] not in gram.EPS_KINDS]
        first_e = xs[0] == ('ref', 'e'); last_e = xs[-1] == ('ref', 'e') and len(xs) > 1
        kind = 'infix' if (first_e and last_e) else ('postfix' if first_e else ('prefix' if last_e else 'atom'))
        opx = xs[1] if first_e else xs[0]
        optoks = [opx[1]] if opx[0] == 'tok' else [t[1] for t in opx[1]]
        pat = []
        for x in xs:
            if x == ('ref', 'e'): pat.append('e')
            elif x[0] == 'tok': pat.append({x[1]})
            else: pat.append({t[1] for t in x[1]})
        right = kind == 'infix' and all(t in g.right for t in optoks)
        tab.append(dict(rank=rank, kind=kind, ops=set(optoks), pat=pat, right=right))
    return tab

class E:
    __slots__ = ('b', 'kids', 'lo', 'hi')
    def __init__(self, b, kids, lo, hi): self.b, self.kids, self.lo, self.hi = b, kids, lo, hi
    def key(self): return (self.b['rank'], self.lo, self.hi, tuple(k.key() if isinstance(k, E) else k for k in self.kids))

def to_expr(w, toks, tab, e_disc):
    """walk tree (engine or native form) -> E; children: rule nodes of kind e are operands, leaves are tokens"""
    if w[0] != 'R': raise ValueError('expected rule node')
    kids = w[4]
    shape = []
    for c in kids:
        if c[0] == 'R': shape.append(to_expr(c, toks, tab, e_disc))
        else: shape.append(toks[c[2]])           # token name at source position lo
    for b in tab:
        if len(b['pat']) != len(shape): continue
        if all((p == 'e' and isinstance(s, E)) or (p != 'e' and not isinstance(s, E) and s in p) for p, s in zip(b['pat'], shape)):
            return E(b, shape, w[2], w[3])
    raise ValueError(f'node children {[s if not isinstance(s, E) else "e" for s in shape]} match no branch')

def conflicts(x):
    """list of priority / associativity conflicts in expression tree x (empty = the unique correct tree)"""
    out = []
    def operands(n): return [k for k in n.kids if isinstance(k, E)]
    def check(n):
        b = n.b
        ks = operands(n)
        for k in ks: check(k)
        if b['kind'] == 'infix':
            l, r = ks[0], ks[-1]
            # right spine of the left operand
            c = l
            while True:
                cb = c.b
                if cb['kind'] == 'infix':
                    if not (cb['rank'] < b['rank'] or (cb['rank'] == b['rank'] and not b['right'])): out.append(('left', b['rank'], cb['rank'])); break
                    c = operands(c)[-1]
                elif cb['kind'] == 'prefix':
                    if not cb['rank'] < b['rank']: out.append(('left-prefix', b['rank'], cb['rank'])); break
                    c = operands(c)[-1]
                else: break
            c = r
            while True:
                cb = c.b
                if cb['kind'] == 'infix':
                    if not (cb['rank'] < b['rank'] or (cb['rank'] == b['rank'] and b['right'])): out.append(('right', b['rank'], cb['rank'])); break
                    c = operands(c)[0]
                elif cb['kind'] == 'postfix':
                    if not cb['rank'] < b['rank']: out.append(('right-postfix', b['rank'], cb['rank'])); break
                    c = operands(c)[0]
                else: break
        elif b['kind'] == 'prefix':
            c = ks[-1]
            while True:
                cb = c.b
                if cb['kind'] == 'infix':
                    if not cb['rank'] < b['rank']: out.append(('prefix-operand', b['rank'], cb['rank'])); break
                    c = operands(c)[0]
                elif cb['kind'] == 'postfix':
                    if not cb['rank'] < b['rank']: out.append(('prefix-postfix', b['rank'], cb['rank'])); break
                    c = operands(c)[0]
                else: break
        elif b['kind'] == 'postfix':
            c = ks[0]
            while True:
                cb = c.b
                if cb['kind'] == 'infix':
                    if not cb['rank'] < b['rank']: out.append(('postfix-operand', b['rank'], cb['rank'])); break
                    c = operands(c)[-1]
                elif cb['kind'] == 'prefix':
                    if not cb['rank'] < b['rank']: out.append(('postfix-prefix', b['rank'], cb['rank'])); break
                    c = operands(c)[-1]
                else: break
    check(x)
    return out

def all_trees(toks, tab):
    """every derivation tree of `e` over the token-name list (the grammar is ambiguous on purpose)"""
    n = len(toks); memo = {}
    def T(i, j):
        if (i, j) in memo: return memo[(i, j)]
        memo[(i, j)] = []       # cycle guard (no unit cycles in this family)
        res = []
        for b in tab:
            pat = b['pat']
            def fill(pi, pos, acc):
                if pi == len(pat):
                    if pos == j: res.append(E(b, list(acc), i, j))
                    return
                p = pat[pi]
                if p == 'e':
                    minrest = len(pat) - pi - 1
                    for m in range(pos + 1, j - minrest + 1):
                        if (pos, m) == (i, j): continue
                        for sub in T(pos, m): fill(pi + 1, m, acc + [sub])
                else:
                    if pos < j and toks[pos] in p: fill(pi + 1, pos + 1, acc + [toks[pos]])
            fill(0, i, [])
        memo[(i, j)] = res
        return res
    return T(0, n)

def c07_job(args):
    g, prop, N, opts = args
    t0 = time.time()
    out = dict(name=g.name, family='pratt', accepted=False, reason=None, paths=0, violations=[], inconclusive=[],
               validated=0, mismatches=[], samples=[], wall=0.0, states=0, forks=0, text=g.text(),
               stats=dict(explored_paths=0, reused_paths=0, steps=0, queries=0, solver_time=0.0, fns=set(), models=set()),
               prop_queries=0, prop_time=0.0, sentences=0, oracle_selfchecks=0, trees_enumerated=0)
    try:
        h, err = harness.make_harness(g.text())
        if h is None:
            out['reason'] = err[0] + ': ' + (err[1] or '').strip().split('\n')[0][:200]; return out
        out['accepted'] = True
        pp = run.ParserProgram(h)
        tab = branch_table(g)
        e_disc = h.rule_enum.index('E')
        tokidx = {t: i for i, t in enumerate(h.tokens)}
        err_tok = tokidx['Error']
        def sentences_only(tv):
            # explore operator expressions only: the membership formula of the (ambiguous) expression grammar rides along in
            # every feasibility query, so paths whose consumed prefix is not viable are pruned by the solver
            from .oracle import Oracle
            o = Oracle(g.rules_dict(), g.start, tv, tokidx)
            return [z3.And(*[t != err_tok for t in tv])] + [o.member()]
        for n in range(1, N + 1):
            results, st, hit = props.cached_explore(pp, 'parse', n, out['stats'], mode='sentences:' + g.text(), extra_pc_fn=sentences_only)
            out['paths'] += len(results); out['forks'] += sum(r.forks for r in results)
            cx = props.PathCtx(g, h, n)
            for r in results:
                if r.status != 'ok' or r.walk_err is not None or r.diags: continue
                if any(k in cx.skipset for k in r.witness): continue            # operator expressions proper (trivia: C16)
                toks = [h.tokens[k] for k in r.witness]
                out['sentences'] += 1
                # the class of this path fixes the branch of every operator position: PC => t_i in ops(branch of witness)
                pc = cx.pc(r) + sentences_only(cx.tv)
                w = r.walk
                try:
                    ex = to_expr(w[4][0], toks, tab, e_disc)
                except (ValueError, IndexError) as e:
                    v = props.Violation('C07', 'malformed-expression-tree', g, r, f'tree of a diagnostic-free parse does not follow the rule branches: {e}')
                    v.confirmed = confirm_c07(h, g, v, tab); out['violations'].append(v.asdict()); continue
                cls = []
                for i, t in enumerate(toks):
                    bs = [b for b in tab if t in b['ops']]
                    if bs:
                        same = set().union(*[b['ops'] for b in bs])
                        cls.append(z3.Or(*[cx.tv[i] == cx.tokidx[o] for o in same]))
                    else: cls.append(cx.tv[i] == cx.tokidx[t])
                ok, m = cx.check(pc + [z3.Not(z3.And(*cls))])
                if ok:
                    out['inconclusive'].append(f'{g.name}: path class mixes operator branches at {toks}'); continue
                cf = conflicts(ex)
                if cf:
                    v = props.Violation('C07', 'precedence', g, r, f'tree for {" ".join(toks)} has priority/associativity conflicts {cf} (branch ranks: lower binds tighter)')
                    v.confirmed = confirm_c07(h, g, v, tab); out['violations'].append(v.asdict())
                # oracle self-check: exactly one conflict-free tree exists over this yield, and it is the parser's
                if n <= opts.get('enum_max', 7):
                    trees = all_trees(toks, tab); out['trees_enumerated'] += len(trees)
                    good = [t for t in trees if not conflicts(t)]
                    out['oracle_selfchecks'] += 1
                    if len(good) != 1:
                        out['inconclusive'].append(f'{g.name}: oracle self-check failed: {len(good)} conflict-free trees of {len(trees)} over {toks}')
                    elif not cf and good[0].key() != ex.key():
                        out['inconclusive'].append(f'{g.name}: parser tree is conflict-free but differs from the enumerated one over {toks}')
            out['prop_queries'] += cx.queries; out['prop_time'] += cx.time
            cnt, mism = run.validate_native(h, results, sample=opts.get('validate', 30), seed=opts.get('seed', 0) + n)
            out['validated'] += cnt
            for r, d in mism: out['mismatches'].append(f'{g.name} {[h.tokens[k] for k in r.witness]}: {d[:300]}')
            sent = [r for r in results if r.status == 'ok' and not r.diags and not any(k in cx.skipset for k in r.witness)]
            if sent and len(out['samples']) < 2:
                r = sent[-1]
                out['samples'].append(dict(grammar=g.name, right=g.right, expression=' '.join(h.tokens[k] for k in r.witness),
                                           path_condition=[str(run.deser(c)) for c in r.pc][:10]))
    except Unsupported as e:
        out['inconclusive'].append(f'{g.name}: {e}')
    except Exception as e:
        out['inconclusive'].append(f'{g.name}: internal error {e!r} {traceback.format_exc()[-800:]}')
    out['wall'] = time.time() - t0
    out['stats']['fns'] = sorted(out['stats']['fns']); out['stats']['models'] = sorted(out['stats']['models'])
    return out

def confirm_c07(h, g, v, tab):
    toks = [h.tokens[k] for k in v.witness]
    o = harness.run_native(h, [(v.entry, toks, v.script)], timeout=30)[0]
    v.native = o if len(json.dumps(o)) < 2500 else '...'
    if o.get('panic') or o.get('timeout') or o.get('crash') or o.get('walk') == 'PANIC' or o['diags']: return False
    try:
        ex = to_expr(o['walk'][4][0], toks, tab, None)
    except (ValueError, IndexError):
        return True
    return bool(conflicts(ex))
