"""Parser for the text printed by `rustc -Zunpretty=mir` (nightly pinned in this image).  Fails closed: a line that is
not understood raises Unsupported when (and only when) it is about to be executed."""
import re, os

class Unsupported(Exception): pass

class Fn:
    __slots__ = ('name', 'params', 'ret', 'blocks', 'ltypes', 'compiled', 'nlocals', 'key', 'generics', 'is_closure', 'file')
    def __init__(self, name, params, ret):
        self.name, self.params, self.ret = name, params, ret
        self.blocks = {}      # int -> [stmt strings]
        self.ltypes = {}      # local index -> type string
        self.compiled = {}    # int -> compiled ops
        self.nlocals = 0
        self.key = None
        self.generics = ()
        self.is_closure = False
    def __repr__(self): return f"<Fn {self.key or self.name}>"

def split_top(s, sep=','):
    """split on sep at nesting depth 0 of ()[]{}<> and outside string literals"""
    out, depth, cur, i, instr = [], 0, [], 0, False
    n = len(s)
    while i < n:
        c = s[i]
        if instr:
            cur.append(c)
            if c == '\\': cur.append(s[i+1]); i += 1
            elif c == '"': instr = False
        elif c == '"': instr = True; cur.append(c)
        elif c in '([{': depth += 1; cur.append(c)
        elif c in ')]}': depth -= 1; cur.append(c)
        elif c == '<' and (i + 1 < n and s[i+1] not in ' ='): depth += 1; cur.append(c)
        elif c == '>' and s[i-1] not in '-= ': depth -= 1; cur.append(c)
        elif c == sep and depth == 0:
            out.append(''.join(cur).strip()); cur = []
        else: cur.append(c)
        i += 1
    t = ''.join(cur).strip()
    if t: out.append(t)
    return out

def mask_strings(s):
    out = []; i = 0; instr = False; n = len(s)
    while i < n:
        c = s[i]
        if instr:
            if c == '\\': out.append('XX'); i += 2; continue
            if c == '"': instr = False; out.append(c)
            else: out.append('X')
        else:
            if c == '"': instr = True
            out.append(c)
        i += 1
    return ''.join(out)

def strip_generics(s):
    """remove ::<...> / <...> generic argument lists that directly follow a path segment"""
    out = []; d = 0; i = 0; n = len(s)
    while i < n:
        c = s[i]
        if c == '<' and i > 0 and s[i-1] not in ' (,&' and not (d == 0 and i == 0): d += 1
        elif c == '>' and d > 0 and s[i-1] != '-': d -= 1
        elif d == 0: out.append(c)
        i += 1
    r = ''.join(out)
    while '::::' in r: r = r.replace('::::', '::')
    return r.rstrip(':')

def base_name(ty):
    ty = ty.strip()
    while ty.startswith('&'): ty = ty[1:].lstrip()
    if ty.startswith('mut '): ty = ty[4:]
    ty = strip_generics(ty)
    ty = re.sub(r"<'[^>]*>", '', ty)
    return ty.split('::')[-1].strip()

def match_angle(s, i):
    d = 0
    for j in range(i, len(s)):
        if s[j] == '<': d += 1
        elif s[j] == '>' and s[j-1] != '-':
            d -= 1
            if d == 0: return j
    raise ValueError(s)

FN_RE = re.compile(r'^fn (.*) \{$')

def parse_file(path):
    fns = {}
    consts = {}
    cur = None; bb = None
    lines = open(path, encoding='utf-8').read().split('\n')
    i = 0; skip_ctfe = False; nl = len(lines)
    while i < nl:
        line = lines[i]; i += 1
        if not line: continue
        c0 = line[0]
        if c0 != ' ':
            if line.startswith('// MIR FOR CTFE'):
                skip_ctfe = True; continue
            if line.startswith('fn ') and line.endswith('{'):
                head = line[3:-2]
                idx = head.rfind(') -> ')
                ret = head[idx+5:]; pre = head[:idx]
                pm = re.search(r'\((_1: |$)', pre)
                if pm: name, params = pre[:pm.start()], pre[pm.start()+1:]
                else: name, params = pre, ''
                if skip_ctfe:
                    skip_ctfe = False; cur = None
                    while i < nl and lines[i] != '}': i += 1
                    continue
                cur = Fn(name, split_top(params), ret)
                fns.setdefault(name, []).append(cur); bb = None
                continue
            mc = re.match(r'^(?:const|static) (?:mut )?(.*): (.*?) = \{$', line)
            if mc:
                cur = Fn(mc.group(1), [], mc.group(2))
                fns.setdefault(cur.name, []).append(cur); bb = None
                continue
            mc = re.match(r'^const (.*): (.*?) = const (.*);$', line)
            if mc:
                consts[mc.group(1)] = mc.group(3); continue
            if line == '}': cur = None
            continue
        if cur is None: continue
        s = line.strip()
        if not s or s[0] == '/' or s == '}': continue
        if s.startswith('let '):
            m = re.match(r'^let (mut )?_(\d+): (.*);$', s)
            if m:
                k = int(m.group(2)); cur.ltypes[k] = m.group(3)
                if k + 1 > cur.nlocals: cur.nlocals = k + 1
                continue
        if s.startswith('debug ') or s.startswith('scope '): continue
        m = re.match(r'^bb(\d+)( \(cleanup\))?: \{$', s)
        if m:
            bb = int(m.group(1)); cur.blocks[bb] = []; continue
        if bb is not None:
            cur.blocks[bb].append(s)
    for fl in fns.values():
        for f in fl:
            for k, p in enumerate(f.params):
                mm = re.match(r'_(\d+): (.*)$', p, re.S)
                if mm: f.ltypes[int(mm.group(1))] = mm.group(2)
            f.nlocals = max(f.nlocals, len(f.params) + 1)
            f.ltypes.setdefault(0, f.ret)
    return fns, consts

class Program:
    """MIR items of one crate, with impl headers resolved to Type::method / <Type as Trait>::method keys."""
    def __init__(self, mirpath, srcroot, strip_prefixes=()):
        self.fns, self.consts = parse_file(mirpath)
        self.srcroot = srcroot
        self.byname = {}
        self.closures = {}
        self.srccache = {}
        self.suffix_cache = {}
        for name, fl in self.fns.items():
          for f in (fl if len(fl) > 1 and '<impl at' in name else fl[-1:]):
            m = re.match(r'^((?:[\w]+::)*)<impl at ([^:]+):(\d+):(\d+): (\d+):(\d+)>::(.*)$', name)
            if m:
                ty, tr, gen = self.impl_of(m.group(2), int(m.group(3)), int(m.group(4)), int(m.group(6)) if m.group(3) == m.group(5) else None)
                meth = m.group(7)
                if '$' in ty:
                    # impl generated by macro_rules!: all instances share one source location; the Self type is read from
                    # the signature (first parameter for methods with a receiver, otherwise the returned type)
                    p0 = f.params[0].split(': ', 1)[1] if f.params else ''
                    cand = base_name(p0) if p0 and base_name(p0) not in ('Cst', 'NodeRef') else base_name(re.sub(r'^Option<(.*)>$', r'\1', f.ret.strip()))
                    ty = cand
                key = f"{ty}::{meth}" if tr is None else f"<{ty} as {tr}>::{meth}"
                f.key = key; f.generics = gen; f.file = m.group(2)
                self.byname[key] = f
                if tr is not None: self.byname.setdefault(f"{ty}::{meth}", f)
            else:
                f.key = name
                self.byname[name] = f
            if f.params and re.match(r'^_1: &?(mut )?\{closure@', f.params[0]):
                cm = re.search(r'\{closure@[^}]*\}', f.params[0])
                self.closures[cm.group(0)] = f; f.is_closure = True

    def src_lines(self, file):
        if file not in self.srccache:
            p = file if os.path.isabs(file) else os.path.join(self.srcroot, file)
            self.srccache[file] = open(p, encoding='utf-8').read().split('\n')
        return self.srccache[file]

    def impl_of(self, file, line, col, endcol):
        L = self.src_lines(file)
        text = L[line-1]
        if text.lstrip().startswith('#[derive'):
            tr = text[col-1:endcol-1]
            for k in range(line, min(line + 12, len(L))):
                mm = re.search(r'\b(enum|struct)\s+(\w+)', L[k])
                if mm: return mm.group(2), tr, ()
            return 'UnknownDerive%d' % line, tr, ()
        text = text[col-1:]
        k = line
        while '{' not in text and k < len(L): text += ' ' + L[k].strip(); k += 1
        mm = re.match(r'\s*impl\s*(<[^>]*>)?\s*(.*?)\s*(?:where.*)?\{', text)
        if not mm: return 'UnknownImpl%d' % line, None, ()
        gen = tuple(x.strip().split(':')[0].strip() for x in (mm.group(1) or '<>')[1:-1].split(',') if x.strip() and not x.strip().startswith("'"))
        hdr = mm.group(2)
        if ' for ' in hdr:
            tr, ty = hdr.split(' for ', 1)
            return base_name(ty.strip()), base_name(tr.strip()), gen
        return base_name(hdr), None, gen

    def lookup_suffix(self, name):
        """unique function whose key ends with ::name (module-qualified call sites)"""
        if name in self.suffix_cache: return self.suffix_cache[name]
        r = self.byname.get(name)
        if r is None:
            parts = name.split('::')
            for k in range(1, len(parts)):
                r = self.byname.get('::'.join(parts[k:]))
                if r is not None: break
        self.suffix_cache[name] = r
        return r
