"""C15, statelessness side condition of the differential encoding.

The differential MIRSE check (props.c15_job) compares G with a declaration-permuted G starting each exploration from a fresh
machine state.  That is only meaningful for "run it again, in the same or another process" if a run of lelwel starts from
the same state every time.  Two things are done here on every run:

 (1) the MIR of the lelwel crate (regenerated from /repo) is scanned for process-wide mutable state and for sources of
     run-to-run nondeterminism (statics, thread locals, std's randomly seeded hasher, clocks, environment, process id);
 (2) the assumption is validated natively: the real `lelwel::compile` runs twice IN ONE PROCESS on two copies of each corpus
     grammar (and the result is compared with the `llw` run of a separate process that built the harness): the emitted
     generated.rs must be byte-identical.

(2) is native execution, not solver-based; it is the translator-validation step for the assumption "no state survives a run",
and the only part of C15's "same process" clause this framework reaches."""
import os, re, json, shutil, hashlib, traceback
from . import harness, frontend, c12

SUSPECT = [
    (r'^static (mut )?[\w:]+', 'static item'),
    (r'thread_local|LocalKey<', 'thread-local storage'),
    (r'RandomState', "std's randomly seeded hasher (iteration order differs between processes)"),
    (r'SystemTime::now|Instant::now', 'clock'),
    (r'std::env::(var|vars|args)|env::var(_os)?\(', 'environment'),
    (r'process::id\(', 'process id'),
    (r'AtomicUsize|AtomicU64|AtomicBool|AtomicU32|AtomicIsize', 'atomic (interior-mutable shared state)'),
    (r'OnceLock|LazyLock|OnceCell|lazy_static', 'lazily initialised global'),
]

def scan_mir(path):
    hits = {}
    for ln, line in enumerate(open(path, encoding='utf-8', errors='replace'), 1):
        for rx, what in SUSPECT:
            if re.search(rx, line):
                if 'OUT_DIR' in line: continue        # lelwel::build reads OUT_DIR: an input of the build-script API, not state
                hits.setdefault(what, []).append(f'{ln}: {line.strip()[:140]}')
    return hits

def state_job(t):
    from . import corpus
    out = dict(viol=[], inconclusive=[], cov=None)
    try:
        mir = frontend.dump_lelwel_mir()
        hits = scan_mir(mir)
        exe = c12.build_fe_native()
        gs = corpus.curated() + corpus.zero_progress_family()[::5] + corpus.parts_family()[::3]
        if t == 'thorough' or hits: gs += corpus.coverage_family() + corpus.product_family() + corpus.recovery_family()
        work = os.path.join(harness.WORK, 'c15-twice'); shutil.rmtree(work, ignore_errors=True); os.makedirs(work)
        texts = [g.text() for g in gs]
        lines = [f'TWICE {work}/{i} ' + x.encode().hex() for i, x in enumerate(texts)]
        for i in range(len(texts)): os.makedirs(f'{work}/{i}')
        res = c12.fe_native_run(exe, lines)
        same = 0; generated = 0; cross = 0
        for i, (g, x, o) in enumerate(zip(gs, texts, res)):
            if o.get('crash') or 'same' not in o:
                out['inconclusive'].append(f'{g.name}: native double run crashed'); continue
            if o['generated']: generated += 1
            if o['same']: same += 1
            else:
                out['viol'].append(dict(prop='C15', kind='same-process-rerun-differs', gname=g.name, family=g.meta.get('family'), entry='compile-twice', n=0,
                                        detail=f"lelwel::compile run twice in one process on two copies of this grammar produced different generated.rs (first difference at byte {o.get('first_diff')}); "
                                               f"process-wide state found in the MIR: {sorted(hits) or 'none'}",
                                        witness=[], script='', gtext=x, confirmed=True, native=o, report_as=None))
            # a run in another process (the llw binary) must produce the same bytes as the in-process run
            p = os.path.join(work, str(i), 'run0', 'generated.rs')
            if o['generated'] and os.path.exists(p):
                r = harness.run_llw(x)
                if r['rc'] == 0 and r['generated'] is not None:
                    cross += 1
                    if r['generated'] != open(p, encoding='utf-8').read():
                        out['viol'].append(dict(prop='C15', kind='other-process-rerun-differs', gname=g.name, family=g.meta.get('family'), entry='compile-twice', n=0,
                                                detail='generated.rs of the llw binary (separate process, other working directory) differs from the in-process lelwel::compile run',
                                                witness=[], script='', gtext=x, confirmed=True, native=o, report_as=None))
        shutil.rmtree(work, ignore_errors=True)
        out['cov'] = dict(mir_scan=dict(file=os.path.basename(mir), patterns=[w for _, w in SUSPECT], hits={k: v[:5] for k, v in hits.items()}),
                          grammars_compiled_twice_in_one_process=len(texts), generated=generated, byte_identical=same, compared_with_separate_process=cross,
                          note='native validation of the assumption that no state survives a run of lelwel; not solver-based')
    except Exception as e:
        out['inconclusive'].append(f'statelessness side condition: {e!r} {traceback.format_exc()[-500:]}')
    return out

def replay_twice(text):
    exe = c12.build_fe_native()
    work = os.path.join(harness.WORK, 'c15-twice-replay'); shutil.rmtree(work, ignore_errors=True); os.makedirs(work)
    o = c12.fe_native_run(exe, [f'TWICE {work} ' + text.encode().hex()])[0]
    shutil.rmtree(work, ignore_errors=True)
    return o
