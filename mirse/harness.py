"""Build the real llw from /repo's working tree, run it on a corpus grammar, wrap the REAL emitted generated.rs in a
harness crate (Token enum, logging ParserCallbacks), dump its MIR with nightly and build the native replay runner."""
import os, re, subprocess, hashlib, shutil, json, sys, time

VERIF = os.path.dirname(os.path.dirname(os.path.abspath(__file__)))
REPO = os.environ.get('VERIF_REPO', '/repo')
WORK = os.environ.get('VERIF_WORK', os.path.join(VERIF, '.work'))
ENV = dict(os.environ, CARGO_NET_OFFLINE='true')
NIGHTLY = os.environ.get('VERIF_NIGHTLY', 'nightly')

def sh(cmd, cwd=None, timeout=1800, env=None):
    return subprocess.run(cmd, cwd=cwd, capture_output=True, text=True, timeout=timeout, env=env or ENV)

def source_digest(repo=None):
    """sha256 over the path and content of every file of the checkout that can influence a build (everything outside .git and
    target directories), plus the checkout's location."""
    repo = repo or REPO
    h = hashlib.sha256(os.path.realpath(repo).encode() + b'\0')
    for root, dirs, files in os.walk(repo):
        dirs[:] = sorted(d for d in dirs if d not in ('.git', 'target'))
        for f in sorted(files):
            p = os.path.join(root, f)
            if not os.path.isfile(p): continue
            h.update(os.path.relpath(p, repo).encode() + b'\0')
            with open(p, 'rb') as fh: h.update(hashlib.sha256(fh.read()).digest())
    return h.hexdigest()[:32]

def refresh_target(td, crates=('lelwel',)):
    """cargo decides by modification time whether a crate has to be rebuilt, and it identifies a workspace member by its path
    RELATIVE to the workspace root.  Neither is good enough here: a target directory can outlive a restore of /repo (old mtimes on
    changed files) and it may have been used last for another checkout (VERIF_REPO=<scratch worktree>), in which case cargo
    would call the other checkout's binary fresh.  So every target directory carries a stamp = digest of the source tree it was
    last built from; when the stamp differs from the current tree, the fingerprints of the crates under test are removed, which
    forces cargo to rebuild them from the current source (third-party dependencies stay compiled).
    Returns the digest; the caller writes it with stamp_target after a successful build."""
    dg = source_digest()
    st = os.path.join(td, 'verif-source.stamp')
    have = open(st).read().strip() if os.path.exists(st) else None
    if have != dg:
        if os.path.exists(st): os.remove(st)
        import glob
        for c in crates:
            for prof in ('debug', 'release'):
                for p in glob.glob(os.path.join(td, prof, '.fingerprint', c + '-*')): shutil.rmtree(p, ignore_errors=True)
    return dg

def stamp_target(td, dg):
    with open(os.path.join(td, 'verif-source.stamp.tmp%d' % os.getpid()), 'w') as f: f.write(dg)
    os.replace(os.path.join(td, 'verif-source.stamp.tmp%d' % os.getpid()), os.path.join(td, 'verif-source.stamp'))

_llw = [None]
LLW_INFO = {}
def build_llw():
    """cargo build of the llw binary from the CURRENT /repo working tree (own target dir, offline)."""
    if _llw[0]: return _llw[0]
    td = os.path.join(WORK, 'llw-target')
    os.makedirs(td, exist_ok=True)
    lock = os.path.join(WORK, 'llw-build.lock')
    import fcntl
    with open(lock, 'w') as lf:
        fcntl.flock(lf, fcntl.LOCK_EX)
        dg = refresh_target(td)
        r = sh(['cargo', 'build', '--offline', '--features', 'cli', '--bin', 'llw', '--target-dir', td,
                '--manifest-path', os.path.join(REPO, 'Cargo.toml')], cwd=REPO)
        if r.returncode != 0:
            raise RuntimeError('cannot build llw from ' + REPO + ':\n' + r.stderr[-3000:])
        if source_digest() != dg:
            raise RuntimeError('the source tree ' + REPO + ' changed while llw was being built')
        stamp_target(td, dg)
        # private copy, named after the source tree it was built from, so that a concurrent rebuild (or a build of another
        # checkout) cannot swap the binary under a running check
        dst = os.path.join(WORK, 'bin'); os.makedirs(dst, exist_ok=True)
        src = os.path.join(td, 'debug', 'llw')
        h = hashlib.sha256(open(src, 'rb').read()).hexdigest()[:16]
        out = os.path.join(dst, 'llw-' + dg[:16] + '-' + h)
        if not os.path.exists(out):
            shutil.copy2(src, out + '.tmp%d' % os.getpid()); os.replace(out + '.tmp%d' % os.getpid(), out)
    _llw[0] = out
    LLW_INFO.update(repo=REPO, source_digest=dg, llw_sha256_16=h)
    return out

def run_llw(text, flags=(), keep=None):
    """run the real llw on grammar text in a private directory. returns dict(rc, stderr, generated, lexer, parser)"""
    llw = build_llw()
    h = hashlib.sha256((text + '\0' + ' '.join(flags)).encode()).hexdigest()[:20]
    d = keep or os.path.join(WORK, 'llw-run', h + '-%d' % os.getpid())
    shutil.rmtree(d, ignore_errors=True); os.makedirs(os.path.join(d, 'out'))
    open(os.path.join(d, 'g.llw'), 'w').write(text)
    r = sh([llw, *flags, '-o', os.path.join(d, 'out'), os.path.join(d, 'g.llw')], cwd=d, timeout=120)
    res = {'rc': r.returncode, 'stderr': r.stderr, 'stdout': r.stdout, 'generated': None, 'lexer': None}
    p = os.path.join(d, 'out', 'generated.rs')
    if os.path.exists(p): res['generated'] = open(p).read()
    p = os.path.join(d, 'lexer.rs')
    if os.path.exists(p): res['lexer'] = open(p).read()
    if keep is None: shutil.rmtree(d, ignore_errors=True)
    return res

def pascal(name):
    res = ''; up = True
    for c in name:
        if up: res += c.upper(); up = False
        elif c == '_': up = True
        else: res += c
    return res

LIB_TEMPLATE = r'''use std::cell::Cell;
#[derive(Debug, PartialEq, Eq, Copy, Clone)]
pub enum Token { EOF, %(eofs)s%(toks)s, Error }
#[derive(Debug, Clone, PartialEq, Eq)]
pub struct Diagnostic { pub span: Span, pub pos: usize, pub in_choice: bool, pub kind: usize }
#[derive(Debug, Clone, PartialEq, Eq)]
pub struct Ev { pub kind: usize, pub id: usize, pub node: usize, pub pos: usize, pub in_choice: bool, pub nlen: usize, pub nrule: usize, pub noff: usize }
#[derive(Default)]
pub struct Ctx { pub tokens: Vec<Token>, pub spans: Vec<Span> }
thread_local! {
    pub static SCRIPT: std::cell::RefCell<(Vec<bool>, usize, Vec<bool>)> = std::cell::RefCell::new((vec![], 0, vec![]));
    pub static LOG: std::cell::RefCell<Vec<Ev>> = std::cell::RefCell::new(vec![]);
}
// the two environment stubs: intercepted at the MIR call edge by the symbolic executor, thread-local script/log natively
#[inline(never)]
pub fn nondet_bool() -> bool {
    // script = prefix followed by an optional cycle that is repeated forever (written "0101(01)")
    SCRIPT.with(|s| { let mut s = s.borrow_mut(); let k = s.1; s.1 += 1;
        if k < s.0.len() { s.0[k] } else if !s.2.is_empty() { let c = s.2.len(); s.2[(k - s.0.len()) %% c] } else { false } })
}
#[inline(never)]
pub fn log_ev(e: Ev) { LOG.with(|l| l.borrow_mut().push(e)); }
include!("generated.rs");
impl<'a> Parser<'a> {
    fn ev(&mut self, kind: usize, id: usize, node: usize) {
        let (nrule, noff) = match self.cst.data.nodes.get(node) {
            Some(Node::Rule(r, off)) => (*r as usize, usize::from(*off)),
            Some(Node::Token(..)) => (9999999, 0),
            None => (9999998, 0),
        };
        let e = Ev { kind, id, node, pos: self.pos, in_choice: self.in_ordered_choice, nlen: self.cst.data.nodes.len(), nrule, noff };
        log_ev(e);
    }
}
impl<'a> ParserCallbacks<'a> for Parser<'a> {
    type Diagnostic = Diagnostic;
    type Context = Ctx;
    fn create_tokens(context: &mut Self::Context, _source: &'a str, _diags: &mut Vec<Self::Diagnostic>) -> (Vec<Token>, Vec<Span>) {
        (std::mem::take(&mut context.tokens), std::mem::take(&mut context.spans))
    }
    fn create_diagnostic(&self, span: Span, _message: String) -> Self::Diagnostic {
        Diagnostic { span, pos: self.pos, in_choice: self.in_ordered_choice, kind: 0 }
    }
%(cbs)s
}
'''

MAIN_TEMPLATE = r'''include!("lib.rs");
fn tok(s: &str) -> Token { match s { %(tokmatch)s, _ => panic!("tok {s}") } }
fn main() {
    use std::io::BufRead;
    let stdin = std::io::stdin();
    for line in stdin.lock().lines() {
        let line = line.unwrap();
        // format: entry|tok tok tok|0101
        let mut it = line.split('|');
        let entry = it.next().unwrap().to_string();
        let toks: Vec<Token> = it.next().unwrap().split_whitespace().map(tok).collect();
        let sc = it.next().unwrap_or("");
        let (pre, cyc) = match sc.split_once('(') { Some((a, b)) => (a, b.trim_end_matches(')')), None => (sc, "") };
        let script: Vec<bool> = pre.chars().map(|c| c == '1').collect();
        let cycle: Vec<bool> = cyc.chars().map(|c| c == '1').collect();
        let n = toks.len();
        let res = std::panic::catch_unwind(move || {
            let mut ctx = Ctx::default();
            for (i, t) in toks.iter().enumerate() { ctx.tokens.push(*t); ctx.spans.push(i..i + 1); }
            SCRIPT.with(|s| *s.borrow_mut() = (script, 0, cycle)); LOG.with(|l| l.borrow_mut().clear());
            let src: String = "x".repeat(n);
            let mut diags: Vec<Diagnostic> = vec![];
            let p = Parser::new_with_context(&src, &mut diags, ctx);
            let cst = match entry.as_str() { %(entries)s, _ => panic!("entry") };
            let mut out = String::new();
            out.push_str("{\"nodes\":[");
            for (i, nd) in cst.data.nodes.iter().enumerate() {
                if i > 0 { out.push(','); }
                match nd {
                    Node::Rule(r, off) => out.push_str(&format!("[\"R\",{},{}]", *r as usize, usize::from(*off))),
                    Node::Token(t, idx) => out.push_str(&format!("[\"T\",{},{}]", *t as usize, usize::from(*idx))),
                }
            }
            out.push_str("],\"diags\":[");
            for (i, d) in diags.iter().enumerate() {
                if i > 0 { out.push(','); }
                out.push_str(&format!("[{},{},{},{},{}]", d.span.start, d.span.end, d.pos, d.in_choice as usize, d.kind));
            }
            out.push_str("],\"log\":[");
            LOG.with(|l| for (i, e) in l.borrow().iter().enumerate() {
                if i > 0 { out.push(','); }
                out.push_str(&format!("[{},{},{},{},{},{},{},{}]", e.kind, e.id, e.node, e.pos, e.in_choice as usize, e.nlen, if e.nrule >= 9999998 { -1 - (9999999 - e.nrule) as i64 } else { e.nrule as i64 }, e.noff));
            });
            out.push_str("],\"walk\":");
            // observable through the public accessors (may panic: caught below)
            let w = std::panic::catch_unwind(std::panic::AssertUnwindSafe(|| { let mut s = String::new(); walk(&cst, NodeRef::ROOT, &mut s); s }));
            match w { Ok(s) => out.push_str(&s), Err(_) => out.push_str("\"PANIC\"") }
            out.push('}');
            out
        });
        match res {
            Ok(s) => println!("{}", s),
            Err(_) => println!("{{\"panic\":true}}"),
        }
    }
}
fn walk(cst: &Cst<'_>, n: NodeRef, out: &mut String) {
    match cst.get(n) {
        Node::Rule(r, _) => {
            let sp = cst.span(n);
            out.push_str(&format!("[\"R\",{},{},{},[", r as usize, sp.start, sp.end));
            let mut first = true;
            for c in cst.children(n) { if !first { out.push(','); } first = false; walk(cst, c, out); }
            out.push_str("]]");
        }
        Node::Token(t, _) => { let sp = cst.span(n); out.push_str(&format!("[\"T\",{},{},{}]", t as usize, sp.start, sp.end)); }
    }
}
'''

class Harness:
    """one emitted parser wrapped for symbolic and native execution"""
    def __init__(self, dir):
        self.dir = dir
        meta = json.load(open(os.path.join(dir, 'meta.json')))
        self.__dict__.update(meta)
    @property
    def mir_path(self): return os.path.join(self.dir, 'mir.txt')
    @property
    def native(self): return os.path.join(self.dir, 'native')
    def mir_hash(self):
        return hashlib.sha256(open(self.mir_path, 'rb').read()).hexdigest()

def token_names_from_lexer(lexer_text):
    body = lexer_text[lexer_text.index('pub enum Token {') + len('pub enum Token {'):]
    body = body[:body.index('\n}')]
    toks = [l.strip().rstrip(',') for l in body.split('\n') if l.strip() and not l.strip().startswith('#')]
    return [t for t in toks if t not in ('EOF', 'Error')]

def make_harness(text, want_native=True, log=None, dynskip=None):
    """grammar text -> Harness or (None, reason). Cached by content of the emitted code + templates."""
    r = run_llw(text)
    if r['rc'] != 0 or r['generated'] is None:
        return None, ('rejected', r['stderr'])
    gen = r['generated']; lex = r['lexer']
    toks = token_names_from_lexer(lex)
    parts = sorted(re.findall(r'pub fn parse_(\w+)\(mut self', gen))
    eofs = sorted(re.findall(r'self\.end_of_input = Token::(EOF\w+);', gen))
    rule_names = re.findall(r'fn create_node_(\w+)\(&mut self, _node_ref', gen)
    del_names = re.findall(r'fn delete_node_(\w+)\(&mut self, _node_ref', gen)
    preds = re.findall(r'fn (predicate_\w+)\(&self\) -> bool;', gen)
    acts = re.findall(r'fn (action_\w+)\(&mut self, diags: &mut Vec<Self::Diagnostic>\);', gen)
    asserts = re.findall(r'fn (assertion_\w+)\(&self\) -> Option<Self::Diagnostic>;', gen)
    # Rule enum order as emitted
    m = re.search(r'pub enum Rule \{(.*?)\n\}', gen, re.S)
    rule_enum = [x.strip().rstrip(',') for x in m.group(1).split('\n') if x.strip()]
    rule_dbg = dict(re.findall(r'Rule::(\w+) => write!\(f, "(\w+)"\)', gen))
    cbs = []
    for i, n in enumerate(rule_names):
        cbs.append(f'    fn create_node_{n}(&mut self, node_ref: NodeRef, _diags: &mut Vec<Self::Diagnostic>) {{ self.ev(1, {i}, node_ref.0); }}')
    for n in del_names:
        cbs.append(f'    fn delete_node_{n}(&mut self, node_ref: NodeRef) {{ self.ev(2, {rule_names.index(n)}, node_ref.0); }}')
    for i, p in enumerate(preds):
        # lookahead offered to predicates is observed (kind 4): peek(0), peek(1), peek_left(0), peek_left(1)
        cbs.append(f'    fn {p}(&self) -> bool {{ log_ev(Ev {{ kind: 4, id: self.peek(0) as usize, node: self.peek(1) as usize, pos: self.pos, in_choice: self.in_ordered_choice, nlen: self.peek_left(0) as usize, nrule: self.peek_left(1) as usize, noff: {i} }}); log_ev(Ev {{ kind: 5, id: self.peek(2) as usize, node: self.peek(3) as usize, pos: self.pos, in_choice: self.in_ordered_choice, nlen: self.peek_left(2) as usize, nrule: self.peek_left(3) as usize, noff: {i} }}); nondet_bool() }}')
    if dynskip:
        # user override of predicate_skip: the environment decides, call by call, whether a token of kind `dynskip` is skipped
        # (kind 6 event: id = answer, pos = index of the token that was asked about)
        ev6 = lambda a: f'log_ev(Ev {{ kind: 6, id: {a}, node: 0, pos: self.pos, in_choice: self.in_ordered_choice, nlen: 0, nrule: 0, noff: 0 }})'
        cbs.append(f'    fn predicate_skip(&self, token: Token) -> bool {{ if matches!(token, Token::{dynskip}) {{ if nondet_bool() {{ {ev6(1)}; true }} else {{ {ev6(0)}; false }} }} else {{ false }} }}')
    for i, a in enumerate(acts):
        cbs.append(f'    fn {a}(&mut self, _diags: &mut Vec<Self::Diagnostic>) {{ self.ev(3, {i}, 0); }}')
    for i, a in enumerate(asserts):
        cbs.append(f'    fn {a}(&self) -> Option<Self::Diagnostic> {{ if nondet_bool() {{ Some(Diagnostic {{ span: self.span(), pos: self.pos, in_choice: self.in_ordered_choice, kind: 1 }}) }} else {{ None }} }}')
    lib = LIB_TEMPLATE % dict(eofs=''.join(e + ', ' for e in eofs), toks=', '.join(toks), cbs='\n'.join(cbs))
    alltoks = ['EOF'] + eofs + toks + ['Error']
    entries = ['"parse" => p.parse(&mut diags)'] + [f'"parse_{p}" => p.parse_{p}(&mut diags)' for p in parts]
    main = MAIN_TEMPLATE % dict(tokmatch=', '.join(f'"{t}" => Token::{t}' for t in alltoks), entries=', '.join(entries))
    key = hashlib.sha256((gen + '\0' + lib + '\0' + main + '\0v9').encode()).hexdigest()[:24]
    d = os.path.join(WORK, 'h', key)
    if not (os.path.exists(os.path.join(d, 'meta.json')) and os.path.exists(os.path.join(d, 'mir.txt'))
            and (not want_native or os.path.exists(os.path.join(d, 'native')))):
        tmp = d + '.tmp%d' % os.getpid()
        shutil.rmtree(tmp, ignore_errors=True); os.makedirs(tmp)
        open(os.path.join(tmp, 'generated.rs'), 'w').write(gen)
        open(os.path.join(tmp, 'lib.rs'), 'w').write(lib)
        open(os.path.join(tmp, 'main.rs'), 'w').write(main)
        open(os.path.join(tmp, 'g.llw'), 'w').write(text)
        r1 = sh(['rustc', '+' + NIGHTLY, '--edition', '2024', '--crate-type', 'lib', '--crate-name', 'h', '-Zunpretty=mir',
                 '-C', 'debug-assertions=on', '-C', 'overflow-checks=on', '-A', 'warnings', 'lib.rs', '-o', 'mir.txt'], cwd=tmp, timeout=600)
        if r1.returncode != 0 or not os.path.exists(os.path.join(tmp, 'mir.txt')):
            shutil.rmtree(tmp, ignore_errors=True)
            return None, ('compile-fail', r1.stderr[-2000:])
        if want_native:
            r2 = sh(['rustc', '--edition', '2024', '-C', 'debug-assertions=on', '-C', 'overflow-checks=on', '-C', 'opt-level=0',
                     '-A', 'warnings', 'main.rs', '-o', 'native'], cwd=tmp, timeout=600)
            if r2.returncode != 0:
                shutil.rmtree(tmp, ignore_errors=True)
                return None, ('compile-fail-native', r2.stderr[-2000:])
        meta = dict(tokens=alltoks, first_tok=1 + len(eofs), parts=parts, eofs=eofs, rule_names=rule_names, del_names=del_names,
                    preds=preds, acts=acts, asserts=asserts, rule_enum=rule_enum, rule_dbg=rule_dbg, key=key, llw_stderr=r['stderr'])
        json.dump(meta, open(os.path.join(tmp, 'meta.json'), 'w'))
        if os.path.exists(d): shutil.rmtree(d, ignore_errors=True)
        try: os.replace(tmp, d)
        except OSError: shutil.rmtree(tmp, ignore_errors=True)
    return Harness(d), None

def build_release(h):
    p = os.path.join(h.dir, 'native-release')
    if not os.path.exists(p):
        r = sh(['rustc', '--edition', '2024', '-C', 'opt-level=3', '-A', 'warnings', 'main.rs', '-o', 'native-release'], cwd=h.dir, timeout=600)
        if r.returncode != 0: return None
    return p

def run_native(h, cases, release=False, timeout=60):
    """cases: list of (entry, [token names], script string). returns list of dicts (or {'panic':True} / {'timeout':True})"""
    exe = build_release(h) if release else h.native
    inp = ''.join(f"{e}|{' '.join(t)}|{s}\n" for e, t, s in cases)
    try:
        # `timeout -s KILL` inside: the process ends by itself even if this check is killed while it spins
        # the watchdog is the inner `timeout -s KILL` (it ends the parser even if this check is killed meanwhile); Python's own
        # timeout is only a backstop and must fire later, otherwise it kills the watchdog and the orphaned parser keeps the
        # output pipe open forever
        r = subprocess.run(['bash', '-c', f'ulimit -s 4096; exec timeout -s KILL {int(timeout)} {exe}'], input=inp, capture_output=True, text=True, timeout=timeout + 20)
    except subprocess.TimeoutExpired:
        return [{'timeout': True}] * len(cases)
    if r.returncode in (137, -9):
        return [{'timeout': True}] * len(cases)
    out = []
    for line in r.stdout.split('\n'):
        if line.strip(): out.append(json.loads(line))
    while len(out) < len(cases): out.append({'crash': True, 'rc': r.returncode})
    return out
