"""Property evaluators over path results of generated parsers, and the per-grammar job that explores (or reuses a cached
exploration of byte-identical code), evaluates, and cross-validates natively."""
import random, os, sys, time, json, pickle, hashlib, glob, random, traceback
import z3
from . import harness, run, gram
from .run import deser, Solver
from .oracle import Oracle, derives
from .mir import Unsupported

def engine_hash():
    h = hashlib.sha256()
    for p in sorted(glob.glob(os.path.join(os.path.dirname(__file__), '*.py'))):
        if os.path.basename(p) in ('props.py', 'corpus.py', 'cli.py', 'evidence.py'): continue
        h.update(open(p, 'rb').read())
    return h.hexdigest()[:16]

def _session_id():
    # the nearest ancestor that is not a python worker / the check wrapper: the process that started the checks
    try:
        pid = os.getppid()
        for _ in range(6):
            cmd = open(f'/proc/{pid}/cmdline', 'rb').read().replace(b'\0', b' ').decode(errors='replace')
            if 'mirse.cli' in cmd or cmd.strip().endswith('/check') or ' ./check ' in (' ' + cmd + ' '):
                pid = int(open(f'/proc/{pid}/stat').read().split(')')[-1].split()[1]); continue
            return pid
        return pid
    except Exception:
        return os.getppid()

_EH = [None]
def cached_explore(pp, entry, n, stats_acc, mode='', extra_pc_fn=None):
    """exploration of (harness MIR, entry, n), content-addressed: a hit reuses the result of executing byte-identical
    MIR with the same engine"""
    if _EH[0] is None: _EH[0] = engine_hash()
    key = hashlib.sha256(f'{pp.h.mir_hash()}|{_EH[0]}|{entry}|{n}|{mode}'.encode()).hexdigest()[:32]
    # the cache lives for one session (the checks started by one parent process, e.g. one runner loop): a new session
    # explores everything again, so what a check reports does not depend on what earlier sessions left behind
    session = os.environ.get('VERIF_CACHE_SESSION') or f'ppid{_session_id()}'
    cdir = os.path.join(harness.WORK, 'cache', session)
    if not os.path.isdir(cdir):
        os.makedirs(cdir, exist_ok=True)
        import shutil
        base = os.path.join(harness.WORK, 'cache')
        for d in os.listdir(base):          # drop the caches of sessions that ended long ago
            p = os.path.join(base, d)
            try:
                if p != cdir and time.time() - os.path.getmtime(p) > 6 * 3600: shutil.rmtree(p, ignore_errors=True)
            except OSError: pass
    path = os.path.join(cdir, key + '.pkl')
    if os.environ.get('VERIF_NOCACHE') != '1' and os.path.exists(path):
        try:
            results, st = pickle.load(open(path, 'rb'))
            stats_acc['reused_paths'] += len(results); stats_acc['reused_steps'] = stats_acc.get('reused_steps', 0) + st['steps']
            for k in ('fns', 'models'): stats_acc[k] |= set(st[k])
            return results, st, True
        except Exception:
            pass
    results, st = run.explore(pp, entry, n, extra_pc_fn=extra_pc_fn)
    tmp = path + '.tmp%d' % os.getpid()
    pickle.dump((results, st), open(tmp, 'wb')); os.replace(tmp, path)
    stats_acc['explored_paths'] += len(results); stats_acc['steps'] += st['steps']; stats_acc['queries'] += st['queries']
    stats_acc['solver_time'] += st['solver_time']
    for k in ('fns', 'models'): stats_acc[k] |= set(st[k])
    return results, st, False

# ---------------------------------------------------------------- helpers on path results
class PathCtx:
    """solver context for property queries over one (grammar, entry, n)"""
    def __init__(self, g, h, n):
        self.g, self.h, self.n = g, h, n
        self.tv = [z3.Int(f't{i}') for i in range(n)]
        self.env = {f't{i}': self.tv[i] for i in range(n)}
        self.solver = z3.Solver()
        for t in self.tv: self.solver.add(t >= h.first_tok, t < len(h.tokens))
        self.skipset = sorted({h.tokens.index(s) for s in g.skip} | {h.tokens.index('Error')})
        self.tokidx = {t: i for i, t in enumerate(h.tokens)}
        self.queries = 0; self.time = 0.0
        self.oracles = {}
    def pc(self, res): return [deser(c, self.env) for c in res.pc]
    def check(self, cons):
        self.queries += 1; t = time.time()
        self.solver.push()
        for c in cons: self.solver.add(c)
        r = self.solver.check()
        m = self.solver.model() if r == z3.sat else None
        self.solver.pop(); self.time += time.time() - t
        if r == z3.unknown: raise Unsupported('solver unknown in property query')
        return r == z3.sat, m
    def is_skip(self, i): return z3.Or(*[self.tv[i] == k for k in self.skipset])
    def trivia(self, res, pc):
        """which positions are skipped/Error tokens on this path (must be determined by the path condition)"""
        w = [res.witness[i] in self.skipset for i in range(self.n)]
        if self.n:
            ok, _ = self.check(pc + [z3.Or(*[self.is_skip(i) != w[i] for i in range(self.n)])])
            if ok: raise Unsupported('path condition does not determine which tokens are skipped')
        return w
    def trivia_cases(self, res, pc):
        """[(pc', trivia flags)]: normally one case; if the path never asked whether some token is skipped (so the path
        condition leaves it open) the class is split by the solver into the feasible skipped / not-skipped cases"""
        try:
            return [(pc, self.trivia(res, pc))]
        except Unsupported:
            pass
        cases = [(list(pc), [])]
        for i in range(self.n):
            nxt = []
            for p, fl in cases:
                for val in (True, False):
                    c = self.is_skip(i) if val else z3.Not(self.is_skip(i))
                    ok, _ = self.check(p + [c])
                    if ok: nxt.append((p + [c], fl + [val]))
            cases = nxt
            if len(cases) > 64: raise Unsupported('too many undetermined trivia positions')
        return cases
    def oracle(self, core, start):
        key = (tuple(core), start)
        o = self.oracles.get(key)
        if o is None:
            o = Oracle(self.g.rules_dict(), start, [self.tv[i] for i in core], self.tokidx)
            M = o.member(); V = [o.viable(p) for p in range(len(core) + 1)]
            o = self.oracles[key] = (o, M, V)
        return o
    def model_tokens(self, m):
        return [m.eval(t, model_completion=True).as_long() for t in self.tv]

def leaves(w, out):
    if w[0] == 'T': out.append(w)
    else:
        for k in w[4]: leaves(k, out)
    return out

def entry_start(g, entry):
    return g.start if entry == 'parse' else entry[len('parse_'):]

class Violation:
    def __init__(self, prop, kind, g, res, detail, witness=None, script=None):
        self.prop, self.kind, self.gname, self.detail = prop, kind, g.name, detail
        self.entry, self.n = res.entry, res.n
        self.witness = list(witness if witness is not None else res.witness)
        self.script = res.script if script is None else script
        self.gtext = g.text(); self.family = g.meta.get('family'); self.dynskip = g.meta.get('dynskip')
        self.confirmed = None; self.native = None; self.report_as = None
        self._res = res
    def asdict(self): return {k: v for k, v in self.__dict__.items() if not k.startswith('_')}

# ---------------------------------------------------------------- C01
def eval_c01(g, h, cx, res, out):
    if res.status != 'ok': return
    if res.walk_err is not None:
        out.append(Violation('C01', 'accessor-panic', g, res, f'walking the returned tree through Cst::children/get/span fails: {res.walk_err}')); return
    w = res.walk
    if w[0] != 'R':
        out.append(Violation('C01', 'root-not-rule', g, res, 'root node is not a rule node')); return
    lv = leaves(w, [])
    exp = [(('t', i), i, i + 1, i) for i in range(res.n)]
    got = [(l[1], l[2], l[3], l[4]) for l in lv]
    if got != exp:
        out.append(Violation('C01', 'not-lossless', g, res, f'leaf walk (kind,span,index) = {got}, expected tokens 0..{res.n - 1} once each in order'))
    elif (w[2], w[3]) != ((0, res.n) if res.n else (0, 0)):
        out.append(Violation('C01', 'root-span', g, res, f'root span {w[2]}..{w[3]} does not cover the source 0..{res.n}'))

# ---------------------------------------------------------------- C02
def flat_check(nodes, i, limit):
    """rule node at i: extent inside limit, children nested. returns None or message"""
    k, _, off = nodes[i]
    end = i + off
    if end > limit: return f'node {i} extent ends at {end} outside its parent/vector (limit {limit})'
    j = i + 1
    while j <= end:
        if nodes[j][0] == 'R':
            m = flat_check(nodes, j, end)
            if m: return m
            j = j + nodes[j][2] + 1
        else: j += 1
    return None

def dyn_skipped(log):
    """positions the environment's predicate_skip override declared skipped (kind 6 events)"""
    last = {}
    for e in log or ():
        if e[0] == 6:
            # tokens are scanned in increasing order: a question about position p voids every answer for positions >= p
            # (the parser went back; those tokens are scanned again or end up, unasked, in the trailing error node)
            for q in [q for q in last if q >= e[3]]: del last[q]
            last[e[3]] = bool(e[1])
    return {p for p, v in last.items() if v}

def eval_c02(g, h, cx, res, out):
    if res.status != 'ok' or res.walk_err is not None: return
    nodes = res.nodes
    if nodes[0][0] != 'R' or nodes[0][2] != len(nodes) - 1:
        out.append(Violation('C02', 'root-extent', g, res, f'root extent {nodes[0]} does not cover the node vector of length {len(nodes)}')); return
    m = flat_check(nodes, 0, len(nodes) - 1)
    if m: out.append(Violation('C02', 'extent', g, res, m)); return
    pc0 = cx.pc(res)
    dyn = dyn_skipped(res.log)
    for pc, triv in cx.trivia_cases(res, pc0):
        if dyn: triv = [bool(t) or (i in dyn) for i, t in enumerate(triv)]
        if _c02_tree(g, h, cx, res, out, pc, triv): return
    # node-created callbacks: announced kind present, extent closed inside the vector at the time of the call
    for e in res.log:
        kind, rid, node, pos, inch, nlen, nrule, noff = e[:8]
        if kind != 1: continue
        name = h.rule_names[rid]
        want = h.rule_enum.index(harness.pascal(name))
        if nrule != want or node + noff >= nlen:
            out.append(Violation('C02', 'create-callback', g, res, f'create_node_{name}(NodeRef({node})): node there has rule #{nrule} offset {noff} (vector length {nlen}), announced {want}')); return
    for bad in (res.cb or []):
        out.append(Violation('C02', 'create-callback-subtree', g, res, bad)); return
    for bad in (res.final or []):
        if bad[0] == 'announced-node-overwritten': out.append(Violation('C02', bad[0], g, res, bad[1])); return

def _c02_tree(g, h, cx, res, out, pc, triv):
    def rec(w, is_root):
        if w[0] == 'T': return None
        prev_hi = None
        for c in w[4]:
            if not (w[2] <= c[2] <= c[3] <= w[3]): return f'child span {c[2]}..{c[3]} of node {c[-1]} not inside parent span {w[2]}..{w[3]} of node {w[-1]}'
            if prev_hi is not None and c[2] < prev_hi: return f'child span {c[2]}..{c[3]} of node {c[-1]} overlaps/precedes its left sibling (ends {prev_hi})'
            prev_hi = c[3]
            m = rec(c, False)
            if m: return m
        if not is_root and w[4]:
            # first / last DIRECT child must not be a skipped or Error token (an empty rule node there is fine)
            for c, what in ((w[4][0], 'starts'), (w[4][-1], 'ends')):
                if c[0] == 'T' and c[4] < len(triv) and triv[c[4]]: return f'rule node {w[-1]} {what} with a skipped token (index {c[4]})'
        return None
    m = rec(res.walk, True)
    if m:
        ok, mdl = cx.check(pc)
        out.append(Violation('C02', 'span-or-trivia', g, res, m, witness=cx.model_tokens(mdl) if ok else None)); return True
    return False

# ---------------------------------------------------------------- C03
def eval_c03(g, h, cx, res, out):
    if res.status == 'ok': return
    out.append(Violation('C03', res.status, g, res, f'parse does not return: {res.status}: {res.msg}'))

# ---------------------------------------------------------------- C04 / C06 (CFG oracle; grammars without /, ?t, user predicates)
def core_positions(triv): return [i for i, t in enumerate(triv) if not t]

def eval_c04(g, h, cx, res, out):
    if res.status != 'ok': return
    pc = cx.pc(res)
    triv = cx.trivia(res, pc); core = core_positions(triv)
    o, M, V = cx.oracle(core, entry_start(g, res.entry))
    clean = len(res.diags) == 0
    ok, m = cx.check(pc + [M != z3.BoolVal(clean)])
    if ok:
        w = cx.model_tokens(m)
        out.append(Violation('C04', 'accepts-nonsentence' if clean else 'rejects-sentence', g, res,
                             ('no diagnostic although the input is not a sentence' if clean else f'{len(res.diags)} diagnostic(s) although the input is a sentence'), witness=w))

def eval_c06(g, h, cx, res, out):
    if res.status != 'ok': return
    n = res.n
    # (3) spans inside the source, (2) strictly increasing positions, at most one per token
    last = -1
    for lo, hi, pos, inch, kind in res.diags:
        if not (0 <= lo <= hi <= n):
            out.append(Violation('C06', 'span-outside', g, res, f'diagnostic span {lo}..{hi} outside source 0..{n}')); return
        if pos <= last:
            out.append(Violation('C06', 'cascade', g, res, f'diagnostic positions not strictly increasing: {[d[2] for d in res.diags]}')); return
        last = pos
        if (lo, hi) != ((pos, pos + 1) if pos < n else (n, n)):
            out.append(Violation('C06', 'span-not-at-token', g, res, f'diagnostic raised at token {pos} has span {lo}..{hi}')); return
    pc = cx.pc(res)
    triv = cx.trivia(res, pc); core = core_positions(triv)
    o, M, V = cx.oracle(core, entry_start(g, res.entry))
    k = len(core)
    if not res.diags:
        return   # C04's business
    p0 = res.diags[0][2]
    if p0 < n and triv[p0]:
        out.append(Violation('C06', 'first-error-on-trivia', g, res, f'first diagnostic points at skipped token {p0}')); return
    q = k if p0 >= n else core.index(p0)
    # expected first error index e(t): least q with not V_{q+1}; or k if V_k and not M
    exp = z3.And(V[q], z3.Not(V[q + 1])) if q < k else z3.And(V[k], z3.Not(M))
    ok, m = cx.check(pc + [z3.Not(exp)])
    if ok:
        w = cx.model_tokens(m)
        out.append(Violation('C06', 'first-error-position', g, res, f'first diagnostic at non-trivia index {q} (token {p0}) is not the first offending token', witness=w))

def per_trivia_case(f):
    """run an evaluator once per feasible skipped/not-skipped case when the path condition leaves trivia-ness open"""
    def g_(g, h, cx, res, out):
        if res.status != 'ok': return f(g, h, cx, res, out)
        pc0 = cx.pc(res)
        try:
            cx.trivia(res, pc0)
            return f(g, h, cx, res, out)
        except Unsupported:
            pass
        orig_pc, orig_triv = cx.pc, cx.trivia
        try:
            for pc, triv in cx.trivia_cases(res, pc0):
                cx.pc = lambda r, pc=pc: list(pc)
                cx.trivia = lambda r, p, triv=triv: list(triv)
                ok, m = cx.check(pc)
                w0 = res.witness
                if ok: res.witness = cx.model_tokens(m)
                try: f(g, h, cx, res, out)
                finally: res.witness = w0
        finally:
            cx.pc, cx.trivia = orig_pc, orig_triv
    return g_

EVALS = {'C01': eval_c01, 'C02': eval_c02, 'C03': eval_c03, 'C04': per_trivia_case(eval_c04), 'C06': per_trivia_case(eval_c06)}

# ---------------------------------------------------------------- per-grammar job
def confirm_native(h, v):
    """replay the violation's witness on the natively compiled REAL parser and re-evaluate concretely"""
    toks = [h.tokens[k] for k in v.witness]
    if v.kind in ('lasso', 'recursion', 'budget'):
        o = harness.run_native(h, [(v.entry, toks, v.script)], timeout=10)[0]
        v.native = {k: o.get(k) for k in ('timeout', 'crash', 'panic', 'rc') if k in o} or 'returned'
        return bool(o.get('timeout') or o.get('crash') or o.get('panic'))
    o = harness.run_native(h, [(v.entry, toks, v.script)], timeout=30)[0]
    v.native = o
    if v.prop == 'C03': return bool(o.get('panic') or o.get('timeout') or o.get('crash'))
    return None   # evaluated by the caller through native_eval

def grammar_job(args):
    """explore one grammar for one property; returns a summary dict (picklable)"""
    g, prop, N, opts = args
    t0 = time.time()
    out = dict(name=g.name, family=g.meta.get('family'), max_tokens=N, accepted=False, reason=None, paths=0, violations=[], inconclusive=[],
               validated=0, mismatches=[], samples=[], wall=0.0, states=0, forks=0, text=g.text(),
               stats=dict(explored_paths=0, reused_paths=0, steps=0, queries=0, solver_time=0.0, fns=set(), models=set()),
               prop_queries=0, prop_time=0.0, classes=0)
    try:
        h, err = harness.make_harness(g.text(), dynskip=g.meta.get('dynskip'))
        if h is None:
            out['reason'] = err[0] + ': ' + (err[1] or '').strip().split('\n')[0][:200]
            return out
        out['accepted'] = True
        if not gram.productive_rules(g) >= set(g.rules_dict()):
            out['accepted'] = False; out['reason'] = 'excluded: unproductive rule (outside C03s quantifier)'
            return out
        pp = run.ParserProgram(h)
        entries = ['parse'] + ['parse_' + p for p in h.parts]
        ev = []
        for p in opts.get('evals', [prop]):
            name, _, relabel = p.partition(':')
            if name == 'C04auto':
                name = 'C04p' if (g.features() & {'choice', 'ptrue'}) else 'C04'
            if name in ('C04', 'C04p', 'C05') and (g.features() & {'pred', 'assert'}): continue
            if g.meta.get('dynskip') and name not in ('C01', 'C02', 'C03'): continue     # dynamic skipping: tree shape and termination only
            f = EVALS[name]
            if relabel:
                def wrap(f=f, relabel=relabel):
                    def e(g, h, cx, r, viol):
                        tmp = []; f(g, h, cx, r, tmp)
                        for v in tmp: v.detail = f'[{v.prop} machinery under {relabel}] ' + v.detail; v.report_as = relabel
                        viol.extend(tmp)
                    return e
                f = wrap()
            ev.append(f)
        def process(entry, n, results, st):
            if not st.get('complete', True): out['inconclusive'].append(f'{entry} n={n}: exploration incomplete')
            out['paths'] += len(results); out['forks'] += sum(r.forks for r in results)
            cx = PathCtx(g, h, n)
            viol = []
            for r in results:
                for e in ev: e(g, h, cx, r, viol)
            out['prop_queries'] += cx.queries; out['prop_time'] += cx.time
            # native cross-validation: all violating paths + a seeded sample
            sample = opts.get('validate', 40)
            cnt, mism = run.validate_native(h, results, sample=sample, seed=opts.get('seed', 0) + n)
            out['validated'] += cnt
            for r, d in mism: out['mismatches'].append(f'{g.name} {entry} {[h.tokens[k] for k in r.witness]} script={r.script}: {d[:300]}')
            kept = {}
            for v in viol:
                k = (v.prop, v.kind)
                kept[k] = kept.get(k, 0) + 1
                if kept[k] > 3: out['suppressed_duplicates'] = out.get('suppressed_duplicates', 0) + 1; continue
                v.confirmed = confirm(h, g, v)
                out['violations'].append(v.asdict())
            if results and len(out['samples']) < 3:
                r = results[len(results) // 2]
                out['samples'].append(dict(grammar=g.name, entry=entry, n=n, path_condition=[str(deser(c)) for c in r.pc][:12],
                                           witness=[h.tokens[k] for k in r.witness], callback_script=r.script, status=r.status,
                                           diagnostics=[list(d) for d in r.diags], nodes=len(r.nodes or [])))
        for entry in entries:
            for n in range(N + 1):
                results, st, hit = cached_explore(pp, entry, n, out['stats'])
                process(entry, n, results, st)
        # deep sentence pass: longer inputs, restricted to sentences of the grammar (membership asserted before execution,
        # so the solver prunes every erroneous input at the first branch); constructs that only interact on inputs longer
        # than the tier's bound are reached this way on their error-free paths
        deep = g.meta.get('deep_sentences', 0)
        if deep and not (g.features() & {'pred', 'assert', 'choice', 'ptrue'}):
            from .oracle import Oracle
            tokidx = {tk: i for i, tk in enumerate(h.tokens)}
            skip = sorted({tokidx[x] for x in g.skip} | {tokidx['Error']})
            def sent(tv):
                return [z3.And(*[t != k for k in skip]) for t in tv] + [Oracle(g.rules_dict(), g.start, tv, tokidx).member()]
            for n in range(N + 1, N + deep + 1):
                results, st, hit = cached_explore(pp, 'parse', n, out['stats'], mode='sent', extra_pc_fn=sent)
                out['deep_sentence_paths'] = out.get('deep_sentence_paths', 0) + len(results)
                process('parse', n, results, st)
    except Unsupported as e:
        out['inconclusive'].append(f'{g.name}: {e}')
    except Exception as e:
        out['inconclusive'].append(f'{g.name}: internal error {e!r} {traceback.format_exc()[-600:]}')
    out['wall'] = time.time() - t0
    out['stats']['fns'] = sorted(out['stats']['fns']); out['stats']['models'] = sorted(out['stats']['models'])
    return out

# ---------------------------------------------------------------- concrete re-evaluation on native output (replay)
def native_walk_leaves(w, out):
    if w[0] == 'T': out.append(w)
    else:
        for k in w[4]: native_walk_leaves(k, out)
    return out

def confirm(h, g, v):
    """the model's concrete input is run on the natively built real parser and the property is re-evaluated on its output"""
    toks = [h.tokens[k] for k in v.witness]
    tmo = 5 if v.kind in ('lasso', 'recursion', 'budget') else 30
    o = harness.run_native(h, [(v.entry, toks, v.script)], timeout=tmo)[0]
    v.native = o if len(json.dumps(o)) < 3000 else {'truncated': True}
    if v.kind == 'announced-node-overwritten':
        # node identity is observed on the real code's MIR; confirmed when the native run produces exactly the predicted outputs
        return list(v.witness) == list(v._res.witness) and run.compare_native(h, v._res, o) is None
    if v.prop == 'C08':
        if v.kind in ('state-not-restored', 'missing-delete') and list(v.witness) == list(v._res.witness):
            # internal state of the real code, observed on its MIR: confirmed when the native run of the same input
            # produces exactly the outputs (nodes, diagnostics, callback log, walk) the symbolic run predicts
            return run.compare_native(h, v._res, o) is None
        if o.get('panic') or o.get('timeout') or o.get('crash'): return False
        if v.kind == 'action-while-choice-active': return any(e[0] == 3 and e[4] for e in o['log'])
        if v.kind == 'choice-flag-leaks': return bool((o['log'] and o['log'][-1][4]) or any(d[3] for d in o['diags']))
        if v.kind == 'diagnostic-after-backtrack':
            ps = [d[2] for d in o['diags'] if d[4] == 0]
            return any(b <= a for a, b in zip(ps, ps[1:]))
        return False
    return native_holds(h, g, v.prop, v.entry, v.witness, o) is False

def native_holds(h, g, prop, entry, witness, o):
    """True if the property holds on this native output, False if violated, None if not decidable here"""
    n = len(witness)
    dead = bool(o.get('panic') or o.get('timeout') or o.get('crash'))
    if prop == 'C03': return not dead
    if dead: return None
    skipset = {h.tokens.index(s) for s in g.skip} | {h.tokens.index('Error')}
    if prop == 'C01':
        if o['walk'] == 'PANIC': return False
        lv = native_walk_leaves(o['walk'], [])
        return o['walk'][0] == 'R' and [(l[1], l[2], l[3]) for l in lv] == [(witness[i], i, i + 1) for i in range(n)]
    if prop == 'C02':
        if o['walk'] == 'PANIC': return None
        nodes = [tuple(x) for x in o['nodes']]
        dyn = dyn_skipped(o.get('log'))
        if nodes[0][0] != 'R' or nodes[0][2] != len(nodes) - 1 or flat_check(nodes, 0, len(nodes) - 1): return False
        def rec(w, root):
            if w[0] == 'T': return True
            prev = None
            for c in w[4]:
                if not (w[2] <= c[2] <= c[3] <= w[3]): return False
                if prev is not None and c[2] < prev: return False
                prev = c[3]
                if not rec(c, False): return False
            if not root and w[4]:
                for c in (w[4][0], w[4][-1]):
                    if c[0] == 'T' and (c[1] in skipset or c[2] in dyn): return False
            return True
        if not rec(o['walk'], True): return False
        for e in o['log']:
            if e[0] == 1:
                want = h.rule_enum.index(harness.pascal(h.rule_names[e[1]]))
                if e[6] != want or e[2] + e[7] >= e[5]: return False
        return True
    core = [i for i in range(n) if witness[i] not in skipset]
    w = tuple(h.tokens[witness[i]] for i in core)
    rules = g.rules_dict(); start = ('ref', entry_start(g, entry))
    if prop == 'C04':
        if g.features() & {'choice', 'ptrue'}:
            if not o['diags']: return derives(rules, start, w)
            return not ref_of(g).run(list(w), start=entry_start(g, entry), part=entry != 'parse')['accept']
        return derives(rules, start, w) == (len(o['diags']) == 0)
    if prop == 'C05':
        if o['walk'] == 'PANIC' or o['diags']: return None
        ref = ref_of(g).run(list(w), start=entry_start(g, entry), part=entry != 'parse')
        if not ref['accept']: return None
        remap = {i: k for k, i in enumerate(core)}
        def plain(x):
            if x[0] == 'T': return ('T', remap[x[2]]) if x[2] in remap else None
            ks = [plain(k) for k in x[4]]
            return ('R', h.rule_dbg.get(h.rule_enum[x[1]], h.rule_enum[x[1]]), [k for k in ks if k is not None])
        acts = [h.acts[e[1]] for e in o['log'] if e[0] == 3]
        return plain(o['walk']) == ref['tree'] and acts == [f'action_{r}_{k}' for r, k in ref['actions']]
    if prop == 'C06':
        last = -1
        for lo, hi, pos, inch, kind in o['diags']:
            if not (0 <= lo <= hi <= n) or pos <= last: return False
            last = pos
        if not o['diags']: return True
        p0 = o['diags'][0][2]
        if p0 < n and witness[p0] in skipset: return False
        q = len(core) if p0 >= n else core.index(p0)
        return expected_first_error(g, rules, start, w, h) == q
    return None

def viable_prefix(g, rules, start, w, h, extra=3):
    """bounded search for an extension (independent of the SMT encoding; used only to re-check counterexamples)"""
    import itertools
    alphabet = [t for t in g.tokens if t not in g.skip]
    for k in range(0, extra + 1):
        for ext in itertools.product(alphabet, repeat=k):
            if derives(rules, start, tuple(w) + ext): return True
    return False

def expected_first_error(g, rules, start, w, h):
    for q in range(len(w)):
        if not viable_prefix(g, rules, start, w[:q + 1], h): return q
    return len(w) if not derives(rules, start, tuple(w)) else None

# ---------------------------------------------------------------- C16: skipped tokens are transparent (differential, same path condition)
def strip_tree(w, keep, remap):
    if w[0] == 'T': return ('T', remap[w[4]]) if w[4] in keep else None
    kids = [strip_tree(k, keep, remap) for k in w[4]]
    return ('R', w[1], [k for k in kids if k is not None])

def plain_tree(w):
    if w[0] == 'T': return ('T', w[4])
    return ('R', w[1], [plain_tree(k) for k in w[4]])

def remap_tok(x, remap):
    if isinstance(x, tuple) and x[0] == 't': return ('t', remap.get(x[1], ('trivia', x[1])))
    return x

def c16_job(args):
    g, prop, N, opts = args
    t0 = time.time()
    out = dict(name=g.name, family=g.meta.get('family'), accepted=False, reason=None, paths=0, violations=[], inconclusive=[],
               validated=0, mismatches=[], samples=[], wall=0.0, states=0, forks=0, text=g.text(),
               stats=dict(explored_paths=0, reused_paths=0, steps=0, queries=0, solver_time=0.0, fns=set(), models=set()),
               prop_queries=0, prop_time=0.0, comparisons=0, extra_forks=0)
    try:
        h, err = harness.make_harness(g.text())
        if h is None:
            out['reason'] = err[0] + ': ' + (err[1] or '').strip().split('\n')[0][:200]; return out
        out['accepted'] = True
        if not gram.productive_rules(g) >= set(g.rules_dict()):
            out['accepted'] = False; out['reason'] = 'excluded: unproductive rule'; return out
        pp = run.ParserProgram(h)
        entries = ['parse'] + ['parse_' + p for p in h.parts]
        for entry in entries:
            for n in range(1, N + 1):
                results, st, hit = cached_explore(pp, entry, n, out['stats'])
                out['paths'] += len(results)
                cx = PathCtx(g, h, n)
                solver = run.Solver()
                tvars = [z3.Int(f't{i}') for i in range(n)]
                for t in tvars: solver.add_base(z3.And(t >= h.first_tok, t < pp.NTOK))
                xresults = []
                for ry in results:
                    if ry.status != 'ok' or ry.walk_err is not None: continue      # C01/C03's business
                    pc = cx.pc(ry)
                    triv = cx.trivia(ry, pc); core = core_positions(triv)
                    # lookahead offered to predicates never sees a skipped token
                    for e in ry.log:
                        if e[0] not in (4, 5): continue
                        for x in (e[1], e[2], e[5], e[6]):
                            if isinstance(x, tuple) and x[0] == 't' and triv[x[1]]:
                                v = Violation('C16', 'lookahead-sees-trivia', g, ry, f'predicate #{e[7]} was offered skipped token {x[1]} as lookahead')
                                v.confirmed = confirm_c16(h, g, v); out['violations'].append(v.asdict())
                    if len(core) == n: continue
                    remap = {i: k for k, i in enumerate(core)}
                    ty = strip_tree(ry.walk, set(core), remap)
                    dy = [(remap[d[2]] if d[2] in remap else (len(core) if d[2] >= n else ('trivia', d[2])), d[4]) for d in ry.diags]
                    ly = [(e[0], e[1]) + ((remap_tok(e[1], remap), remap_tok(e[2], remap), remap_tok(e[5], remap), remap_tok(e[6], remap)) if e[0] in (4, 5) else ()) for e in ry.log]
                    work = [[]]
                    xv = [tvars[i] for i in core]
                    while work:
                        dec = work.pop()
                        r2, rx = run.run_path(pp, solver, xv, entry, len(core), dec, extra_pc=pc)
                        work.extend(r2.pending); out['extra_forks'] += len(r2.pending)
                        out['stats']['steps'] += r2.steps; out['stats']['explored_paths'] += 1
                        out['stats']['fns'] |= r2.fn_used; out['stats']['models'] |= r2.models_used
                        out['comparisons'] += 1
                        diff = None
                        if rx.status != 'ok' or rx.walk_err is not None: diff = f'parse of the input without skipped tokens fails: {rx.status} {rx.msg} {rx.walk_err}'
                        else:
                            # in the x-run variable t_core[k] is input position k
                            xmap = {i: k for k, i in enumerate(core)}
                            tx = plain_tree(rx.walk)
                            dx = [(d[2], d[4]) for d in rx.diags]
                            lx = [(e[0], e[1]) + ((remap_tok(e[1], xmap), remap_tok(e[2], xmap), remap_tok(e[5], xmap), remap_tok(e[6], xmap)) if e[0] in (4, 5) else ()) for e in rx.log]
                            if tx != ty: diff = f'trees differ once skipped tokens are ignored: with trivia {ty} without {tx}'
                            elif dx != dy: diff = f'diagnostics differ: with trivia at {dy}, without at {dx}'
                            elif lx != ly: diff = f'callback sequence differs: with trivia {ly} without {lx}'
                        if diff:
                            ok, m = solver.check()
                            wit = [m.eval(t, model_completion=True).as_long() for t in tvars]
                            scr = ''.join('1' if z3.is_true(m.eval(z3.Bool(f'nd{k}'), model_completion=True)) else '0' for k in range(max(ry.nd, rx.nd)))
                            v = Violation('C16', 'not-transparent', g, ry, diff, witness=wit, script=scr)
                            v.confirmed = confirm_c16(h, g, v)
                            out['violations'].append(v.asdict())
                        solver.reset_pc()
                out['prop_queries'] += cx.queries + solver.queries; out['prop_time'] += cx.time + solver.time
                cnt, mism = run.validate_native(h, results, sample=opts.get('validate', 20), seed=opts.get('seed', 0) + n)
                out['validated'] += cnt
                for r, d in mism: out['mismatches'].append(f'{g.name} {entry} {[h.tokens[k] for k in r.witness]}: {d[:300]}')
                if results and len(out['samples']) < 2:
                    r = results[len(results) // 2]
                    out['samples'].append(dict(grammar=g.name, entry=entry, n=n, witness_with_trivia=[h.tokens[k] for k in r.witness],
                                               path_condition=[str(deser(c)) for c in r.pc][:10]))
    except Unsupported as e:
        out['inconclusive'].append(f'{g.name}: {e}')
    except Exception as e:
        out['inconclusive'].append(f'{g.name}: internal error {e!r} {traceback.format_exc()[-600:]}')
    out['wall'] = time.time() - t0
    out['stats']['fns'] = sorted(out['stats']['fns']); out['stats']['models'] = sorted(out['stats']['models'])
    return out

def native_tree(w):
    if w[0] == 'T': return ('T', w[1], w[2])
    return ('R', w[1], [native_tree(k) for k in w[4]])

def confirm_c16(h, g, v):
    """both inputs (with and without trivia) are run natively and compared concretely"""
    skipset = {h.tokens.index(s) for s in g.skip} | {h.tokens.index('Error')}
    y = v.witness; core = [i for i in range(len(y)) if y[i] not in skipset]
    x = [y[i] for i in core]
    oy, ox = harness.run_native(h, [(v.entry, [h.tokens[k] for k in y], v.script), (v.entry, [h.tokens[k] for k in x], v.script)], timeout=30)
    v.native = {'with_trivia': oy if len(json.dumps(oy)) < 1500 else '...', 'without': ox if len(json.dumps(ox)) < 1500 else '...'}
    if v.kind == 'lookahead-sees-trivia':
        return any(e[0] in (4, 5) and any(t in skipset for t in (e[1], e[2], e[5], e[6]) if t >= h.first_tok) for e in oy.get('log', []))
    if any(o.get('panic') or o.get('timeout') or o.get('crash') for o in (oy, ox)) or oy['walk'] == 'PANIC' or ox['walk'] == 'PANIC':
        return bool(not (oy.get('panic') or oy.get('timeout') or oy.get('crash')) and oy.get('walk') != 'PANIC')
    remap = {i: k for k, i in enumerate(core)}
    def strip(w):
        if w[0] == 'T': return ('T', remap[w[2]]) if w[2] in remap else None
        ks = [strip(k) for k in w[4]]
        return ('R', w[1], [k for k in ks if k is not None])
    def plain(w):
        if w[0] == 'T': return ('T', w[2])
        return ('R', w[1], [plain(k) for k in w[4]])
    if strip(oy['walk']) != plain(ox['walk']): return True
    n = len(y)
    dy = [(remap.get(d[2], len(core) if d[2] >= n else -1), d[4]) for d in oy['diags']]
    dx = [(d[2], d[4]) for d in ox['diags']]
    if dy != dx: return True
    ly = [(e[0], e[1]) + ((e[1], e[2], e[5], e[6]) if e[0] in (4, 5) else ()) for e in oy['log']]
    lx = [(e[0], e[1]) + ((e[1], e[2], e[5], e[6]) if e[0] in (4, 5) else ()) for e in ox['log']]
    return ly != lx

# ---------------------------------------------------------------- C05: derivation tree with node operators (reference interpreter)
from . import refparse
_REFS = {}
def ref_of(g):
    r = _REFS.get(g.name + g.text())
    if r is None: r = _REFS[g.name + g.text()] = refparse.Ref(g)
    return r

def parser_tree_plain(h, w, triv, remap):
    """engine walk -> ('R', snake_name, kids) / ('T', core index), trivia leaves dropped"""
    if w[0] == 'T':
        return None if triv[w[4]] else ('T', remap[w[4]])
    name = h.rule_dbg.get(h.rule_enum[w[1]], h.rule_enum[w[1]])
    kids = [parser_tree_plain(h, k, triv, remap) for k in w[4]]
    return ('R', name, [k for k in kids if k is not None])

def class_models(cx, pc, res, limit=6):
    """concrete inputs of the path class: the witness plus further models (blocking clauses)"""
    out = [list(res.witness)]
    block = [z3.Or(*[cx.tv[i] != res.witness[i] for i in range(res.n)])] if res.n else [z3.BoolVal(False)]
    while len(out) < limit:
        ok, m = cx.check(pc + block)
        if not ok: break
        w = cx.model_tokens(m); out.append(w)
        block.append(z3.Or(*[cx.tv[i] != w[i] for i in range(res.n)]))
    return out

def eval_c05(g, h, cx, res, out):
    if res.status != 'ok' or res.walk_err is not None or res.diags: return
    pc = cx.pc(res)
    triv = cx.trivia(res, pc); core = core_positions(triv)
    remap = {i: k for k, i in enumerate(core)}
    R = ref_of(g)
    part = res.entry != 'parse'
    got = parser_tree_plain(h, res.walk, triv, remap)
    got_actions = [h.acts[e[1]] for e in res.log if e[0] == 3]
    for wit in class_models(cx, pc, res):
        toks = [h.tokens[wit[i]] for i in core]
        ref = R.run(toks, start=entry_start(g, res.entry), part=part)
        if not ref['accept']: continue          # C04's business (or outside the prioritised reading)
        exp_actions = [f'action_{r}_{k}' for r, k in ref['actions']]
        if ref['tree'] != got:
            out.append(Violation('C05', 'tree', g, res, f'tree for sentence {" ".join(toks)} is {got}, the derivation tree with node operators applied is {ref["tree"]}', witness=wit)); return
        if exp_actions != got_actions:
            out.append(Violation('C05', 'actions', g, res, f'semantic actions for sentence {" ".join(toks)} fired as {got_actions}, derivation order is {exp_actions}', witness=wit)); return

# ---------------------------------------------------------------- C04 for grammars with ordered choice / ?t (one-sided, see DESIGN)
def eval_c04_prio(g, h, cx, res, out):
    if res.status != 'ok': return
    pc = cx.pc(res)
    triv = cx.trivia(res, pc); core = core_positions(triv)
    o, M, V = cx.oracle(core, entry_start(g, res.entry))        # M reads `/` as `|`: the unprioritised language
    if not res.diags:
        ok, m = cx.check(pc + [z3.Not(M)])
        if ok:
            out.append(Violation('C04', 'accepts-nonsentence', g, res, 'no diagnostic although no reading of the grammar derives the input', witness=cx.model_tokens(m)))
        return
    R = ref_of(g)
    for wit in class_models(cx, pc + [M], res, limit=4) if cx.check(pc + [M])[0] else []:
        if not z3.is_true(z3.simplify(z3.substitute(M, *[(cx.tv[i], z3.IntVal(wit[i])) for i in range(res.n)]))): continue
        toks = [h.tokens[wit[i]] for i in core]
        ref = R.run(toks, start=entry_start(g, res.entry), part=res.entry != 'parse')
        if ref['accept']:
            out.append(Violation('C04', 'rejects-sentence', g, res, f'{len(res.diags)} diagnostic(s) although {" ".join(toks)} is a sentence of the prioritised reading', witness=wit)); return

# ---------------------------------------------------------------- C08 monitors
def eval_c08(g, h, cx, res, out):
    # (a) hard state restored by set_state: position, current token, tree (node vector, token_count, non_skip_len), diagnostics
    for before, after in res.states:
        if before != after:
            names = ('pos', 'current', 'token_count', 'non_skip_len', 'nodes', 'diag_count')
            d = [n for n, x, y in zip(names, before, after) if x != y]
            out.append(Violation('C08', 'state-not-restored', g, res, f'after abandoning an alternative {d} differ from the snapshot: before {before} after {after}')); return
    if res.status != 'ok': return
    # (b) callbacks
    for bad in (res.final or []):
        out.append(Violation('C08', bad[0], g, res, bad[1])); return
    for e in res.log:
        if e[0] == 3 and e[4]:
            out.append(Violation('C08', 'action-while-choice-active', g, res, f'semantic action {h.acts[e[1]]} ran while the ordered-choice mode flag was set (an attempt that can be undone, or a flag left over from a finished choice)')); return
    if res.log and res.log[-1][4]:
        out.append(Violation('C08', 'choice-flag-leaks', g, res, 'the ordered-choice mode flag is still set when the parse ends: later mismatches are swallowed')); return
    for d in res.diags:
        if d[3]:
            out.append(Violation('C08', 'choice-flag-leaks', g, res, f'diagnostic at token {d[2]} raised while the ordered-choice mode flag was set')); return
    # (c) once the choice is over errors are reported as usual: at most one syntax diagnostic per token, increasing
    if not any(d[4] == 1 for d in res.diags):
        last = -1
        for d in res.diags:
            if d[2] <= last:
                out.append(Violation('C08', 'diagnostic-after-backtrack', g, res, f'syntax diagnostics at positions {[x[2] for x in res.diags]}: a position is reported twice after an abandoned alternative')); return
            last = d[2]

EVALS.update({'C05': per_trivia_case(eval_c05), 'C04p': per_trivia_case(eval_c04_prio), 'C08': eval_c08})

# ---------------------------------------------------------------- C15 (partial): declaration order does not change the generated parser's behaviour
def named_walk(h, w):
    if w[0] == 'T': return ('T', w[1], w[4])
    return ('R', h.rule_enum[w[1]], [named_walk(h, k) for k in w[4]])

def named_log(h, log):
    out = []
    for e in log:
        if e[0] in (1, 2): out.append((e[0], h.rule_names[e[1]], e[2], e[3]))
        elif e[0] == 3: out.append((3, h.acts[e[1]], e[3]))
        elif e[0] in (4, 5): out.append((e[0], h.preds[e[7]], e[1], e[2], e[5], e[6]))
    return out

def c15_job(args):
    g, prop, N, opts = args
    t0 = time.time()
    out = dict(name=g.name, family=g.meta.get('family'), accepted=False, reason=None, paths=0, violations=[], inconclusive=[],
               validated=0, mismatches=[], samples=[], wall=0.0, states=0, forks=0, text=g.text(),
               stats=dict(explored_paths=0, reused_paths=0, steps=0, queries=0, solver_time=0.0, fns=set(), models=set()),
               prop_queries=0, prop_time=0.0, comparisons=0, permutations=0, identical_outputs=0, extra_forks=0)
    try:
        h, err = harness.make_harness(g.text())
        if h is None:
            out['reason'] = err[0] + ': ' + (err[1] or '').strip().split('\n')[0][:200]
            if err[0] == 'rejected':
                # a grammar that is rejected in this declaration order must be rejected in every order
                nd = len(g.decls()); rnd = random.Random(opts.get('seed', 0) * 31 + len(g.text()))
                perms = [list(range(nd))[::-1]]
                for _ in range(4):
                    p = list(range(nd)); rnd.shuffle(p)
                    if p not in perms: perms.append(p)
                for perm in perms:
                    out['permutations'] += 1
                    r = harness.run_llw(g.text(perm))
                    if r['rc'] == 0 and r['generated'] is not None:
                        v = Violation('C15', 'order-dependent-acceptance', g, type('R', (), dict(entry='parse', n=0, witness=[], script=''))(),
                                      f'the grammar is rejected ({out["reason"][:120]}) but accepted without error when its declarations are ordered {perm}')
                        v.confirmed = True; v.gtext = g.text(perm); out['violations'].append(v.asdict()); break
            return out
        if not gram.productive_rules(g) >= set(g.rules_dict()):
            out['reason'] = 'excluded: unproductive rule'; return out
        nd = len(g.decls())
        if nd < 3: out['reason'] = 'fewer than 3 declarations'; return out
        out['accepted'] = True
        pp = run.ParserProgram(h)
        rnd = random.Random(opts.get('seed', 0) * 31 + len(g.text()))
        perms = []
        rev = list(range(nd))[::-1]
        perms.append(rev)
        while len(perms) < opts.get('perms', 3):
            p = list(range(nd)); rnd.shuffle(p)
            if p != list(range(nd)) and p not in perms: perms.append(p)
        gen0 = open(os.path.join(h.dir, 'generated.rs')).read()
        for perm in perms:
            h2, err = harness.make_harness(g.text(perm))
            out['permutations'] += 1
            if h2 is None:
                v = Violation('C15', 'permutation-rejected', g, type('R', (), dict(entry='parse', n=0, witness=[], script=''))(), f'declaration order {perm} is rejected or does not compile: {err[0]} {(err[1] or "")[:200]}')
                v.confirmed = True; v.gtext = g.text(perm); out['violations'].append(v.asdict()); continue
            if h2.tokens != h.tokens or h2.rule_enum != h.rule_enum:
                out['inconclusive'].append(f'{g.name}: token/rule enumeration differs under permutation {perm}'); continue
            if open(os.path.join(h2.dir, 'generated.rs')).read() == gen0:
                out['identical_outputs'] += 1; continue
            pp2 = run.ParserProgram(h2)
            entries = ['parse'] + ['parse_' + p for p in h.parts]
            for entry in entries:
                for n in range(N + 1):
                    results, st, hit = cached_explore(pp, entry, n, out['stats'])
                    out['paths'] += len(results)
                    cx = PathCtx(g, h, n)
                    solver = run.Solver()
                    tvars = [z3.Int(f't{i}') for i in range(n)]
                    for t in tvars: solver.add_base(z3.And(t >= h.first_tok, t < pp.NTOK))
                    for r1 in results:
                        pc = cx.pc(r1)
                        work = [[]]
                        while work:
                            dec = work.pop()
                            r2m, r2 = run.run_path(pp2, solver, tvars, entry, n, dec, extra_pc=pc)
                            work.extend(r2m.pending); out['extra_forks'] += len(r2m.pending)
                            out['stats']['steps'] += r2m.steps; out['stats']['explored_paths'] += 1
                            out['stats']['fns'] |= r2m.fn_used; out['stats']['models'] |= r2m.models_used
                            out['comparisons'] += 1
                            diff = None
                            if (r1.status, r1.walk_err is None) != (r2.status, r2.walk_err is None): diff = f'status {r1.status}/{r1.walk_err} vs {r2.status}/{r2.walk_err}'
                            elif r1.status == 'ok' and r1.walk_err is None:
                                if named_walk(h, r1.walk) != named_walk(h2, r2.walk): diff = f'trees differ: {named_walk(h, r1.walk)} vs {named_walk(h2, r2.walk)}'
                                elif r1.diags != r2.diags: diff = f'diagnostics differ: {r1.diags} vs {r2.diags}'
                                elif named_log(h, r1.log) != named_log(h2, r2.log): diff = f'callback sequence differs: {named_log(h, r1.log)} vs {named_log(h2, r2.log)}'
                            if diff:
                                ok, m = solver.check()
                                wit = [m.eval(t, model_completion=True).as_long() for t in tvars]
                                scr = ''.join('1' if z3.is_true(m.eval(z3.Bool(f'nd{k}'), model_completion=True)) else '0' for k in range(max(r1.nd, r2.nd)))
                                v = Violation('C15', 'order-dependent', g, r1, f'with declaration order {perm}: {diff}', witness=wit, script=scr)
                                o1 = harness.run_native(h, [(entry, [h.tokens[k] for k in wit], scr)])[0]
                                o2 = harness.run_native(h2, [(entry, [h.tokens[k] for k in wit], scr)])[0]
                                def nat_named(hh, o):
                                    if o.get('panic') or o.get('walk') == 'PANIC': return 'PANIC'
                                    def nw(w): return ('T', w[1], w[2]) if w[0] == 'T' else ('R', hh.rule_enum[w[1]], [nw(k) for k in w[4]])
                                    return (nw(o['walk']), o['diags'], named_log(hh, [tuple(e) for e in o['log']]))
                                v.confirmed = nat_named(h, o1) != nat_named(h2, o2)
                                v.native = {'order_a': str(nat_named(h, o1))[:600], 'order_b': str(nat_named(h2, o2))[:600]}
                                out['violations'].append(v.asdict())
                            solver.reset_pc()
                    out['prop_queries'] += solver.queries; out['prop_time'] += solver.time
                    if results and len(out['samples']) < 1:
                        r = results[len(results) // 2]
                        out['samples'].append(dict(grammar=g.name, permutation=perm, entry=entry, n=n, witness=[h.tokens[k] for k in r.witness]))
            cnt, mism = run.validate_native(h2, cached_explore(pp2, 'parse', min(N, 3), out['stats'])[0], sample=opts.get('validate', 15), seed=opts.get('seed', 0))
            out['validated'] += cnt
            for r, d in mism: out['mismatches'].append(f'{g.name} perm {perm} {[h.tokens[k] for k in r.witness]}: {d[:300]}')
    except Unsupported as e:
        out['inconclusive'].append(f'{g.name}: {e}')
    except Exception as e:
        out['inconclusive'].append(f'{g.name}: internal error {e!r} {traceback.format_exc()[-600:]}')
    out['wall'] = time.time() - t0
    out['stats']['fns'] = sorted(out['stats']['fns']); out['stats']['models'] = sorted(out['stats']['models'])
    return out
