"""MIRSE on the lelwel crate's OWN MIR: the front-end parser (src/frontend/generated.rs + parser.rs) over symbolic token
sequences, with frontend::lexer::tokenize intercepted at the call edge and replaced by the symbolic token vector."""
import os, re, glob, shutil, time, hashlib
import z3
from . import harness, run
from .interp import *
from .models import MODELS
from .mir import Program, Unsupported

def dump_lelwel_mir(features=()):
    """fresh MIR dump of the lelwel lib crate from /repo's current working tree"""
    td = os.path.join(harness.WORK, 'mir-target' + ('-' + '-'.join(features) if features else ''))
    os.makedirs(td, exist_ok=True)
    for p in glob.glob(os.path.join(td, 'debug', '.fingerprint', 'lelwel-*')): shutil.rmtree(p, ignore_errors=True)
    out = os.path.join(harness.WORK, 'lelwel' + ('-' + '-'.join(features) if features else '') + '.mir')
    cmd = ['cargo', '+' + harness.NIGHTLY, 'rustc', '--offline', '--lib', '--crate-type', 'lib', '--target-dir', td,
           '--manifest-path', os.path.join(harness.REPO, 'Cargo.toml')]
    if features: cmd += ['--features', ','.join(features)]
    cmd += ['--', '-Zunpretty=mir', '-C', 'debug-assertions=on', '-C', 'overflow-checks=on']
    r = harness.sh(cmd, cwd=harness.REPO, timeout=1200)
    if r.returncode != 0 or len(r.stdout) < 1000:
        raise Unsupported('cannot dump MIR of the lelwel crate: ' + r.stderr[-1500:])
    open(out, 'w').write(r.stdout)
    return out

# codespan builders: keep severity, message and the primary span
def _diag_error(m, a, raw): return Agg('Diag', None, ['error', None, None])
def _diag_warning(m, a, raw): return Agg('Diag', None, ['warning', None, None])
def _with_message(m, a, raw):
    d = a[0]; d.f[1] = a[1] if isinstance(a[1], str) else '<msg>'; return d
def _with_label(m, a, raw):
    d = a[0]
    if d.f[2] is None: d.f[2] = a[1]
    return d
def _with_labels(m, a, raw):
    d = a[0]
    its = a[1].items if a[1].__class__ is VecObj else []
    if d.f[2] is None and its: d.f[2] = its[0]
    return d
def _ident(m, a, raw): return a[0]
def _label_primary(m, a, raw): return Agg('Label', None, ['primary', a[1]])
def _label_secondary(m, a, raw): return Agg('Label', None, ['secondary', a[1]])

FRONT_MODELS = dict(MODELS)
FRONT_MODELS.update({
    'Diagnostic::error': _diag_error, 'Diagnostic::warning': _diag_warning, 'Diagnostic::with_message': _with_message,
    'Diagnostic::with_label': _with_label, 'Diagnostic::with_labels': _with_labels, 'Diagnostic::with_code': _ident,
    'Diagnostic::with_notes': _ident, 'Diagnostic::with_note': _ident,
    'Label::primary': _label_primary, 'Label::secondary': _label_secondary, 'Label::with_message': _ident,
})

class FrontProgram:
    def __init__(self, features=()):
        self.mir_path = dump_lelwel_mir(features)
        self.load()

    def load(self):
        self.prog = Program(self.mir_path, harness.REPO)
        self.types = Types()
        fe = os.path.join(harness.REPO, 'src', 'frontend')
        self.types.load([os.path.join(fe, f) for f in ('generated.rs', 'lexer.rs', 'parser.rs', 'ast.rs')])
        T = self.types
        self.tokens = T.enums['Token']
        self.NTOK = len(self.tokens)
        self.P = {n: i for i, n in enumerate(T.structs['Parser'])}
        self.CD = {n: i for i, n in enumerate(T.structs['CstData'])}
        self.CST = {n: i for i, n in enumerate(T.structs['Cst'])}
        self.node_rule = T.enums['Node'].index('Rule')
        self.rule_names = T.enums['Rule']
        B = self.prog.byname
        self.f_new = B['Parser::new']; self.f_parse = B['Parser::parse']
        self.f_children = B['Cst::children']; self.f_next = B['<CstChildren as Iterator>::next']
        self.f_get = B['Cst::get']; self.f_span = B['Cst::span']
        self.h = None
    def mir_hash(self): return hashlib.sha256(open(self.mir_path, 'rb').read()).hexdigest()

class FrontResult:
    __slots__ = ('n', 'decisions', 'pc', 'status', 'msg', 'nodes', 'walk', 'walk_err', 'diags', 'steps', 'witness', 'forks', 'cst')

def run_front_path(fp, solver, tvars, n, decisions, extra_pc=(), keep_cst=False):
    r = run.Run(fp.prog, fp.types, solver, decisions, models=FRONT_MODELS)
    r.MAX_STEPS = 300_000
    solver.reset_pc()
    for c in extra_pc: r.add_pc(c)
    toks = VecObj([Agg('Token', Sym(t), []) for t in tvars[:n]])
    spans = VecObj([Agg('Range', None, [i, i + 1]) for i in range(n)])
    def tokenize(m, a, raw): return Agg('tuple', None, [toks, spans])
    r.intercepts['tokenize'] = tokenize
    res = FrontResult(); res.n = n
    diags = VecObj(); cell = [diags]
    cst = None
    try:
        parser = r.call(fp.f_new, ['x' * n, Ref(cell, 0)])
        cst = r.call(fp.f_parse, [parser, Ref(cell, 0)])
        res.status, res.msg = 'ok', ''
    except Panic as e: res.status, res.msg = 'panic', str(e)
    except PathAbort as e: res.status, res.msg = e.kind, e.msg
    res.steps = r.steps; res.decisions = list(r.decisions); res.forks = r.forks
    res.diags = []
    for d in diags.items:
        lab = d.f[2]
        sp = lab.f[1] if lab is not None else None
        res.diags.append((d.f[0], d.f[1], (sp.f[0], sp.f[1]) if sp is not None else None))
    res.nodes = res.walk = res.walk_err = None
    if cst is not None:
        data = cst.f[fp.CST['data']]
        res.nodes = [run.node_plain(x, fp) for x in data.f[fp.CD['nodes']].items]
        r.stack = []
        try: res.walk = run.walk_tree(r, fp, cst)
        except Panic as e: res.walk_err = 'panic: ' + str(e)
        except PathAbort as e: res.walk_err = e.kind + ': ' + e.msg
    res.pc = [run.ser(c) for c in r.pc[len(extra_pc):]]
    res.cst = cst if keep_cst else None
    return r, res

def explore_front(fp, n, extra_pc_fn=None, seed_decisions=None, max_paths=None, on_path=None, bfs=False):
    solver = run.Solver()
    tvars = [z3.Int(f't{i}') for i in range(n)]
    for t in tvars: solver.add_base(z3.And(t >= 1, t < fp.NTOK))       # every lexical item incl. comments, Whitespace, Error
    extra = extra_pc_fn(tvars) if extra_pc_fn else ()
    work = [list(d) for d in (seed_decisions or [[]])]
    if extra:
        ok, _ = solver.check(list(extra))
        if not ok: work = []
    out = []; steps = 0; fns = set(); mods = set(); t0 = time.time()
    while work:
        dec = work.pop(0) if bfs else work.pop()
        r, res = run_front_path(fp, solver, tvars, n, dec, extra_pc=extra, keep_cst=on_path is not None)
        work.extend(r.pending)
        steps += r.steps; fns |= r.fn_used; mods |= r.models_used
        ok, model = solver.check()
        if not ok: raise Unsupported('final path condition unsat')
        res.witness = [model.eval(t, model_completion=True).as_long() for t in tvars]
        if on_path: on_path(r, res, solver, tvars)
        res.cst = None
        out.append(res)
        if max_paths and len(out) >= max_paths: break
    solver.reset_pc()
    return out, dict(paths=len(out), steps=steps, queries=solver.queries, solver_time=solver.time, wall=time.time() - t0,
                     fns=sorted(fns), models=sorted(mods), complete=not work, pending=work)
