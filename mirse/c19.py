"""C19 (partial): the tool only writes what it promises.  MIRSE on the gating logic that produces the property's table:
lelwel::compile (src/lib.rs) and RustOutput::run (src/backend/rust.rs), MIR of the crate built with --features cli.
Symbolic: the flags check / format / graph / short, verbose in 0..2, the outcome of every file-system call (Ok/Err,
exists true/false), the number and severities of the diagnostics delivered by the (stubbed) front end, and whether the
formatted text equals the source.  Every file-system call becomes an event; the property's rows are queries over the
path condition of each path.  Stubbed at the call edge (listed in the evidence): Parser::new/parse, SemanticPass::run,
backend::format::format, DebugPrinter, GraphvizOutput::run (= one create event for parser.gv), the emitters
output_generated / output_parser / output_lexer (= create events), codespan's terminal emitter, stdout."""
import os, sys, time, json, traceback
import z3
from . import harness, run, frontend
from .interp import *
from .models import MODELS, truthy
from .mir import Unsupported

def explore_compile(fp):
    solver = run.Solver()
    F = {k: z3.Bool(k) for k in ('check', 'format', 'graph', 'short')}
    verbose = z3.Int('verbose')
    solver.add_base(z3.And(verbose >= 0, verbose <= 2))
    T = fp.types
    T.enums['Severity'] = ['Help', 'Note', 'Warning', 'Error', 'Bug']
    SEV_ERR, SEV_WARN = 3, 2
    f_compile = fp.prog.byname.get('compile') or fp.prog.lookup_suffix('compile')
    work = [[]]; out = []; stubs = set()
    while work:
        dec = work.pop()
        models = dict(frontend.FRONT_MODELS)
        r = run.Run(fp.prog, fp.types, solver, dec, models=models)
        r.MAX_STEPS = 200_000
        solver.reset_pc()
        events = []; sev = []
        def nd(tag):
            return truthy(r, r.fresh_bool(tag + '_'))
        def io_result(ok_val):
            return Agg('Result', 0, [ok_val]) if nd('io_ok') else Agg('Result', 1, ['io-error'])
        def mk_diag(kind):
            if kind == 'syntax': s = SEV_ERR                # syntax errors are always errors
            else:
                s = SEV_ERR if nd('sev_is_error') else SEV_WARN
            sev.append(s)
            return Agg('Diagnostic', None, [Agg('Severity', s, []), None, 'msg', VecObj(), VecObj()])
        def stub(name, fn):
            def f(m, a, raw): stubs.add(name); return fn(m, a, raw)
            r.intercepts[name] = f
        stub('Path::new', lambda m, a, raw: a[0])
        stub('Path::try_exists', lambda m, a, raw: io_result(nd('input_exists')))
        stub('fs::read_to_string', lambda m, a, raw: io_result('SOURCE'))
        stub('Parser::new', lambda m, a, raw: Agg('ParserStub', None, []))
        def parse(m, a, raw):
            if nd('syntax_error'): a[1].get().items.append(mk_diag('syntax'))
            return Agg('CstStub', None, [])
        stub('Parser::parse', parse)
        stub('format::format', lambda m, a, raw: 'SOURCE' if nd('formatted_equals_source') else 'SOURCE (reformatted)')
        def fs_write(m, a, raw): events.append(('write', 'input file')); return io_result(UNIT)
        stub('fs::write', fs_write)
        def sema(m, a, raw):
            d = a[1].get().items
            if nd('sema_diag_1'):
                d.append(mk_diag('sema'))
                if nd('sema_diag_2'): d.append(mk_diag('sema'))
            return Agg('SemaStub', None, [])
        stub('SemanticPass::run', sema)
        for k in ('Argument::new_display', 'Argument::new_debug', 'Arguments::new', 'Arguments::new_const', 'io::_print', 'io::_eprint', 'DebugPrinter::run',
                  'StandardStream::stderr', 'StandardStream::lock', 'SimpleFile::new', 'BufWriter::new', 'hint::must_use', 'must_use'):
            stub(k, (lambda m, a, raw: a[0] if a else UNIT) if k in ('BufWriter::new', 'must_use', 'hint::must_use') else (lambda m, a, raw: Agg('Stub', None, [None] * 12)))
        stub('DebugPrinter::new', lambda m, a, raw: Agg('Stub', None, []))
        stub('Config::default', lambda m, a, raw: Agg('Config', None, [None] * 12))
        stub('emit_to_write_style', lambda m, a, raw: Agg('Result', 0, [UNIT]))
        stub('term::emit_to_write_style', lambda m, a, raw: Agg('Result', 0, [UNIT]))
        def graphviz(m, a, raw): events.append(('create', 'parser.gv')); return io_result(UNIT)
        stub('GraphvizOutput::run', graphviz)
        # inside the REAL RustOutput::run
        stub('File::cast', lambda m, a, raw: mk_option(Agg('File', None, [Agg('NodeRef', None, [0])])))
        stub('Path::join', lambda m, a, raw: f'{deref_s(a[0])}/{deref_s(a[1])}')
        stub('Path::parent', lambda m, a, raw: mk_option('INPUTDIR'))
        def create(m, a, raw): events.append(('create', os.path.basename(deref_s(a[0])))); return io_result(Agg('FileStub', None, []))
        stub('File::create', create)
        stub('fmt::format', lambda m, a, raw: '<formatted>')
        stub('String::as_bytes', lambda m, a, raw: a[0])
        stub('GeneralWrite::write_all', lambda m, a, raw: Agg('Result', 0, [UNIT]))
        stub('Write::write_all', lambda m, a, raw: Agg('Result', 0, [UNIT]))
        stub('BufWriter::write_all', lambda m, a, raw: Agg('Result', 0, [UNIT]))
        stub('RustOutput::output_generated', lambda m, a, raw: io_result(UNIT))
        def exists(m, a, raw):
            name = os.path.basename(deref_s(a[0]))
            v = nd('exists_' + name.replace('.', '_'))
            events.append(('exists', name, v)); return v
        stub('Path::exists', exists)
        def out_parser(m, a, raw): events.append(('create', os.path.basename(deref_s(a[1])))); return io_result(UNIT)
        def out_lexer(m, a, raw): events.append(('create', os.path.basename(deref_s(a[2])))); return io_result(UNIT)
        stub('RustOutput::output_parser', out_parser)
        stub('RustOutput::output_lexer', out_lexer)
        # any other mutating std::fs call is a file-system effect of its own (kind = the function called)
        import re as _re
        _orig_resolve = r.resolve
        def resolve(fr, callee, use_tyargs=False, _orig=_orig_resolve):
            try:
                return _orig(fr, callee, use_tyargs)
            except Unsupported:
                mm = _re.match(r'^(?:std::)?(?:fs::)?(create_dir_all|create_dir|remove_file|remove_dir|remove_dir_all|rename|copy|hard_link|set_permissions|write|File::create_new|OpenOptions::open)(::<.*>)?$', callee)
                if not mm: raise
                name = mm.group(1)
                def eff(m, a, raw, name=name):
                    stubs.add('fs::' + name)
                    events.append(('write' if name in ('write', 'copy', 'rename', 'set_permissions') else 'create', f'{name}({os.path.basename(deref_s(a[0])) if a else ""})'))
                    return io_result(UNIT)
                return ('model', eff, 'fs-effect:' + name)
        r.resolve = resolve
        status = 'ok'; msg = ''; ret = None
        try:
            ret = r.call(f_compile, ['g.llw', 'OUTDIR', Sym(F['check']), Sym(F['format']), Sym(verbose), Sym(F['graph']), Sym(F['short'])])
        except Panic as e: status, msg = 'panic', str(e)
        except PathAbort as e: status, msg = e.kind, e.msg
        work.extend(r.pending)
        out.append(dict(status=status, msg=msg, ret=ret, events=list(events), sev=list(sev), pc=list(r.pc), steps=r.steps, fns=set(r.fn_used), models=set(r.models_used), nd=list(r.nd_vars)))
    solver.reset_pc()
    return out, solver, F, verbose, sorted(stubs)

def deref_s(x):
    v = x.get() if x.__class__ is Ref else x
    return v if isinstance(v, str) else str(v)

def main(t, sd):
    from .cli import load_known, match_known, VERIF
    t0 = time.time()
    fp = frontend.FrontProgram(features=('cli',))
    paths, solver, F, verbose, stubs = explore_compile(fp)
    viol = []; inconc = []
    def model_of(pc, extra):
        ok, m = solver.check(list(pc) + list(extra))
        return m if ok else None
    def describe(m, p):
        flags = {k: z3.is_true(m.eval(v, model_completion=True)) for k, v in F.items()}
        flags['verbose'] = m.eval(verbose, model_completion=True).as_long()
        env = {str(v): z3.is_true(m.eval(v, model_completion=True)) for v in p['nd']}
        return flags, env
    for p in paths:
        if p['status'] != 'ok':
            inconc.append(f"compile does not return on a stubbed path: {p['status']} {p['msg']}"); continue
        creates = [e for e in p['events'] if e[0] in ('create', 'write')]
        has_error = any(s == 3 for s in p['sev'])
        pc = p['pc']
        # row 1: check mode creates or modifies no file
        if creates:
            m = model_of(pc, [F['check']])
            if m is not None:
                viol.append(dict(kind='check-mode-writes', detail=f'check mode performs {creates}', model=describe(m, p), events=p['events']))
        for e in creates:
            if e[1] == 'generated.rs':
                # row 2: generated parser only without error, not in check or format mode
                for bad, why in ((F['check'], 'in check mode'), (F['format'], 'in format mode')):
                    m = model_of(pc, [bad])
                    if m is not None: viol.append(dict(kind='generated-written-' + why.replace(' ', '-'), detail=f'generated.rs is created {why}', model=describe(m, p), events=p['events']))
                if has_error: viol.append(dict(kind='generated-written-despite-error', detail='generated.rs is created although an error diagnostic was reported', model=describe(model_of(pc, []), p), events=p['events']))
            if e[1] in ('lexer.rs', 'parser.rs') and e[0] == 'create':
                ex = {x[1]: x[2] for x in p['events'] if x[0] == 'exists'}
                if ex.get('lexer.rs') is not False or ex.get('parser.rs') is not False:
                    viol.append(dict(kind='skeleton-clobbered', detail=f'{e[1]} is created although exists() returned {ex}', model=describe(model_of(pc, []), p), events=p['events']))
                if has_error: viol.append(dict(kind='skeleton-written-despite-error', detail=f'{e[1]} is created although an error diagnostic was reported', model=describe(model_of(pc, []), p), events=p['events']))
            if e[1] == 'parser.gv' and has_error:
                viol.append(dict(kind='graph-written-despite-error', detail='parser.gv is created although an error diagnostic was reported', model=describe(model_of(pc, []), p), events=p['events']))
        # row 4: in check and generate mode (not format) the returned flag is true exactly when no error diagnostic was reported
        ret = p['ret']
        if ret is not None and ret.disc == 0:
            flag = ret.f[0]
            m0 = model_of(pc, [z3.Not(F['format'])])
            if m0 is not None:
                want = not has_error
                if flag.__class__ is Sym:
                    m = model_of(pc, [z3.Not(F['format']), flag.e != z3.BoolVal(want)])
                    if m is not None: viol.append(dict(kind='exit-status', detail=f'success flag is not {want} although error diagnostics reported = {has_error}', model=describe(m, p), events=p['events']))
                elif bool(flag) != want:
                    viol.append(dict(kind='exit-status', detail=f'success flag {flag} although error diagnostics reported = {has_error}', model=describe(m0, p), events=p['events']))
    # translator validation of the stubbed model: paths without injected I/O faults are replayed with the real llw and the
    # files created / exit status must be what the path's events and return value say
    validated = 0; mism = []
    import random as _r
    cand = []
    for p in paths:
        if p['status'] != 'ok' or p['ret'] is None: continue
        m = model_of(p['pc'], [z3.Not(F['format'])])
        if m is None: continue
        fl, env = describe(m, p)
        if any(k.startswith('io_ok') and not v for k, v in env.items()) or any(k.startswith('input_exists') and not v for k, v in env.items()): continue
        cand.append((p, fl, env))
    _r.Random(sd).shuffle(cand)
    for p, fl, env in cand[:40]:
        v = dict(kind='validate', model=(fl, env))
        confirm_native(v)
        nat = v.get('native')
        if not nat: continue
        validated += 1
        exp = set()
        for e in p['events']:
            if e[0] == 'create': exp.add({'generated.rs': 'out/generated.rs'}.get(e[1], e[1]))
        flag = p['ret'].f[0] if p['ret'].disc == 0 else None
        if flag.__class__ is Sym: flag = z3.is_true(model_of(p['pc'], [z3.Not(F['format'])] + [vv == z3.BoolVal(val) for vv, val in [(F[k], fl[k]) for k in F]]).eval(flag.e, model_completion=True))
        if set(nat['files_created_or_changed']) != exp or (nat['exit'] == 0) != bool(flag):
            mism.append(f"real llw `{nat['cmd']}` on {nat['grammar']!r}: files {nat['files_created_or_changed']} exit {nat['exit']}; model path says {sorted(exp)} success={flag}")
    # native confirmation with the real llw in a scratch directory
    known = load_known(); reported = 0; seen = set(); known_hits = {}; confirmed_n = 0
    bykind = {}
    for v in viol: bykind.setdefault(v['kind'], []).append(v)
    chosen = []
    for kind, vs in bykind.items():
        # prefer a counterexample without injected I/O faults: those can be replayed with the real llw
        vs.sort(key=lambda v: sum(1 for k, val in v['model'][1].items() if k.startswith('io_ok') and not val))
        res = None
        for v in vs[:6]:
            ok = confirm_native(v); v['confirmed'] = ok
            if ok: res = v; break
            if res is None or (res['confirmed'] is None and ok is False): res = v
        chosen.append(res)
    for v in chosen:
        seen.add(v['kind'])
        ok = v['confirmed']
        if ok is False:
            inconc.append(f"counterexample did not reproduce with the real llw: {v['kind']} {v['model']} native={v.get('native')}"); continue
        if ok is None:
            inconc.append(f"counterexample needs an I/O fault that cannot be replayed natively: {v['kind']} {v['model']}"); continue
        vv = dict(prop='C19', kind=v['kind'], gname='compile', family='cli')
        k = match_known(known, vv)
        if k is not None: known_hits[k['text']] = known_hits.get(k['text'], 0) + 1; continue
        import hashlib
        d = os.path.join(VERIF, 'replays', 'C19'); os.makedirs(d, exist_ok=True)
        body = dict(property='C19', kind=v['kind'], detail=v['detail'], flags=v['model'][0], environment=v['model'][1], events=v['events'], native=v.get('native'))
        pth = os.path.join(d, hashlib.sha256(json.dumps(body, sort_keys=True, default=str).encode()).hexdigest()[:16] + '.json')
        json.dump(body, open(pth, 'w'), indent=1, default=str)
        print(f"VIOLATION property=C19 replay={pth}"); print(f"   {v['kind']}: {v['detail']} flags={v['model'][0]}")
        reported += 1
    for ktext, cnt in known_hits.items(): print(f"KNOWN-FINDING: property=C19 {ktext}")
    fns = set(); mods = set(); steps = 0
    for p in paths: fns |= p['fns']; mods |= p['models']; steps += p['steps']
    samples = []
    for p in paths[:6]:
        m = model_of(p['pc'], [])
        fl, env = describe(m, p)
        samples.append(dict(flags=fl, environment=env, events=[list(map(str, e)) for e in p['events']], severities=p['sev'], returns=str(p['ret'])[:60]))
    cov = dict(states=max(1, len(paths) * 2), transitions=max(1, steps), traces_validated_against_impl=validated + len(seen), engine_native_mismatches=mism[:10], samples=samples or [{'note': 'none'}],
               exhaustive=not inconc, explanation='states = paths of compile()/RustOutput::run over symbolic flags, I/O outcomes and diagnostic severities (x2: leaves + forks, lower bound); transitions = MIR statements executed',
               paths=len(paths), functions_encoded=sorted(fns), stubs_at_call_edges=stubs, std_models=sorted(mods), solver_queries=solver.queries, solver_time_s=round(solver.time, 3),
               bounds=dict(diagnostics='0..1 syntax error + 0..2 semantic diagnostics with symbolic severity (error/warning)', verbose='0..2', tier=t),
               inconclusive=inconc[:30], known_findings_hit=known_hits, violations_reported=reported)
    cov['built_from'] = dict(harness.LLW_INFO) or dict(repo=harness.REPO, source_digest=harness.source_digest())   # which source tree this run compiled
    ev = dict(property_id='C19', tier=t, seed=sd, level='model_checking', coverage=cov, wall_s=round(time.time() - t0, 2), violations=reported,
              assumptions=['PARTIAL: only the gating logic of lelwel::compile and RustOutput::run; what the stubbed emitters write, real file systems (read-only directories, races, symlinks), clap argument parsing in llw and lelwel::build are outside',
                           'GraphvizOutput::run, output_parser and output_lexer are taken to create their file (one create event each)'])
    os.makedirs(os.path.join(VERIF, 'evidence'), exist_ok=True)
    json.dump(ev, open(os.path.join(VERIF, 'evidence', 'C19.json'), 'w'), indent=1, default=str)
    print(f"C19: validated {validated} fault-free paths against the real llw, {len(mism)} mismatches")
    print(f"C19: tier={t} paths={len(paths)} violations={reported} known={sum(known_hits.values())} inconclusive={len(inconc)} wall={time.time() - t0:.1f}s")
    if reported: return 1
    if inconc or mism:
        for x in (inconc + mism)[:10]: print('INCONCLUSIVE:', x[:400])
        return 2
    return 0

GOOD = "token A B;\nstart s;\ns: A B;\n"
WARN = "token A B C;\nstart s;\ns: A B;\n"          # unused token: warning only
SEMERR = "token A B;\nstart s;\ns: A x;\n"           # undefined rule
SYNERR = "token A B;\nstart s;\ns: A B\n"

def confirm_native(v):
    """run the real llw in a scratch directory with the flags / file states of the model and look at the directory"""
    import subprocess, tempfile, shutil
    flags, env = v['model']
    if any(k.startswith('io_ok') and not val for k, val in env.items()): return None      # needs an injected I/O error
    llw = harness.build_llw()
    d = tempfile.mkdtemp(prefix='c19-', dir=harness.WORK)
    try:
        sev_err = [val for k, val in env.items() if k.startswith('sev_is_error')]
        if any(k.startswith('syntax_error') and val for k, val in env.items()): text = SYNERR
        elif any(sev_err): text = SEMERR
        elif any(k.startswith('sema_diag_1') and val for k, val in env.items()): text = WARN
        else: text = GOOD
        open(os.path.join(d, 'g.llw'), 'w').write(text)
        feq = [val for k, val in env.items() if k.startswith('formatted_equals_source')]
        if feq and text != SYNERR:
            # the model fixes whether the source already is in canonical format: let the real formatter produce the canonical text
            subprocess.run([llw, '-f', 'g.llw'], cwd=d, capture_output=True, text=True, timeout=60)
            canon = open(os.path.join(d, 'g.llw')).read()
            text = canon if feq[0] else canon.replace('\n', '\n\n', 1) if canon.replace('\n', '\n\n', 1) != canon else ' ' + canon
            for f in os.listdir(d):
                if f != 'g.llw': os.remove(os.path.join(d, f))
            open(os.path.join(d, 'g.llw'), 'w').write(text)
        if not any('create_dir' in str(e) for e in v.get('events', [])): os.makedirs(os.path.join(d, 'out'))
        for k, val in env.items():
            if k.startswith('exists_lexer') and val: open(os.path.join(d, 'lexer.rs'), 'w').write('// mine\n')
            if k.startswith('exists_parser') and val: open(os.path.join(d, 'parser.rs'), 'w').write('// mine\n')
        before = {}
        for root, ds, fs in os.walk(d):
            for f in fs: before[os.path.relpath(os.path.join(root, f), d)] = open(os.path.join(root, f), 'rb').read()
            for x in ds: before[os.path.relpath(os.path.join(root, x), d) + '/'] = b'<dir>'
        OLD = 1_000_000_000        # every entry gets an old mtime: a rewrite with identical bytes is still seen
        for root, ds, fs in os.walk(d):
            for f in fs + ds: os.utime(os.path.join(root, f), (OLD, OLD))
        os.utime(d, (OLD, OLD))
        args = [llw] + (['-c'] if flags['check'] else []) + (['-f'] if flags['format'] else []) + (['-g'] if flags['graph'] else []) + (['-s'] if flags['short'] else []) + ['-v'] * flags['verbose'] + ['-o', 'out', 'g.llw']
        pr = subprocess.run(args, cwd=d, capture_output=True, text=True, timeout=60)
        after = {}
        for root, ds, fs in os.walk(d):
            for f in fs: after[os.path.relpath(os.path.join(root, f), d)] = open(os.path.join(root, f), 'rb').read()
            for x in ds:
                if os.path.relpath(os.path.join(root, x), d) not in ('out',) or not os.path.isdir(os.path.join(d, 'out')) or True:
                    after.setdefault(os.path.relpath(os.path.join(root, x), d) + '/', b'<dir>')
        for root, ds, fs in os.walk(d):
            pass
        changed = sorted(k for k in after if before.get(k) != after[k]) + sorted(k for k in before if k not in after)
        for root, ds, fs in os.walk(d):
            for f in fs:
                rel = os.path.relpath(os.path.join(root, f), d)
                if rel not in changed and int(os.stat(os.path.join(root, f)).st_mtime) != OLD: changed.append(rel + ' (rewritten with the same bytes)')
        v['native'] = dict(cmd=' '.join(args[1:]), grammar=text, exit=pr.returncode, files_created_or_changed=changed)
        k = v['kind']
        if k == 'check-mode-writes': return bool(changed)
        if k.startswith('generated-written'): return 'out/generated.rs' in changed
        if k == 'skeleton-clobbered' or k == 'skeleton-written-despite-error': return any(c in ('lexer.rs', 'parser.rs') for c in changed)
        if k == 'graph-written-despite-error': return 'parser.gv' in changed
        if k == 'exit-status': return (pr.returncode == 0) != (text in (GOOD, WARN))
        return False
    finally:
        shutil.rmtree(d, ignore_errors=True)
