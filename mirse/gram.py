"""Independent grammar model (the corpus' own AST of a lelwel grammar) and its printer to .llw text.

Regex AST = nested tuples:
  ('tok', NAME) ('ref', rule) ('seq', (x, ...)) ('alt', (x, ...)) ('choice', (x, ...))
  ('opt', x) ('star', x) ('plus', x)
  ('rename', name) ('elide',) ('mark', k) ('create', k|None, name|None)
  ('action', k) ('pred', k) ('ptrue',) ('assert', k) ('commit',) ('ret',)
Nothing in this file looks at lelwel's own analysis; the oracles are built from this model only.
"""
import re

def tok(n): return ('tok', n)
def ref(n): return ('ref', n)
def seq(*xs): return ('seq', tuple(xs))
def alt(*xs): return ('alt', tuple(xs))
def choice(*xs): return ('choice', tuple(xs))
def opt(x): return ('opt', x)
def star(x): return ('star', x)
def plus(x): return ('plus', x)
def rename(n): return ('rename', n)
ELIDE = ('elide',)
def mark(k): return ('mark', k)
def create(k=None, name=None): return ('create', k, name)
def action(k): return ('action', k)
def pred(k): return ('pred', k)
PTRUE = ('ptrue',)
def assertion(k): return ('assert', k)
COMMIT = ('commit',)
RET = ('ret',)

EPS_KINDS = ('rename', 'elide', 'mark', 'create', 'action', 'pred', 'ptrue', 'assert', 'commit', 'ret')

class Grammar:
    def __init__(self, tokens, rules, start, skip=(), right=(), parts=(), name='g', meta=None):
        self.tokens = list(tokens)          # token names (str) in declaration order
        self.rules = list(rules)            # [(name, elided: bool, regex)]
        self.start, self.skip, self.right, self.parts = start, list(skip), list(right), list(parts)
        self.name = name
        self.meta = meta or {}

    def rule(self, name):
        for n, e, r in self.rules:
            if n == name: return r
        raise KeyError(name)

    def rule_elided(self, name):
        for n, e, r in self.rules:
            if n == name: return e
        raise KeyError(name)

    def rules_dict(self): return {n: r for n, e, r in self.rules}

    def decls(self):
        """top level declarations as text, in canonical order"""
        sym = self.meta.get('symbols') or ()
        def ref(t): return symbol_of(t) if t in sym else t
        d = ['token ' + ' '.join(t + ('=' + symbol_of(t) if t in sym else '') for t in self.tokens) + ';']
        if self.skip: d.append('skip ' + ' '.join(ref(t) for t in self.skip) + ';')
        if self.right: d.append('right ' + ' '.join(ref(t) for t in self.right) + ';')
        d.append(f'start {self.start};')
        if self.parts: d.append('part ' + ' '.join(self.parts) + ';')
        for n, e, r in self.rules:
            d.append(f"{n}{'^' if e else ''}: {show(r, 0, sym)};" if r is not None else f"{n}{'^' if e else ''}:;")
        return d

    def text(self, perm=None):
        d = self.decls()
        if perm is not None: d = [d[i] for i in perm]
        return '\n'.join(d) + '\n'

    def features(self):
        f = set()
        def walk(x):
            if x is None: return
            f.add(x[0])
            if x[0] in ('seq', 'alt', 'choice'):
                for y in x[1]: walk(y)
            elif x[0] in ('opt', 'star', 'plus'): walk(x[1])
        for n, e, r in self.rules:
            walk(r)
            if e: f.add('rule_elide')
            if is_pratt(n, r): f.add('pratt')
        if self.parts: f.add('parts')
        if self.skip: f.add('skip')
        if self.right: f.add('right')
        return f

def is_pratt(name, r):
    """directly left-recursive rule: top-level alternation with a branch that starts with a reference to the rule itself"""
    if r is None or r[0] != 'alt': return False
    for b in r[1]:
        if b[0] == 'seq':
            xs = [x for x in b[1] if x[0] not in ('pred', 'ptrue')]
            if xs and xs[0] == ('ref', name): return True
    return False

PREC = {'alt': 0, 'choice': 1, 'seq': 2}

def symbol_of(t): return "'" + t.lower() + "'"

def symbolize(g, which=None):
    """the same grammar with (some of) its tokens declared with a symbol (`token A='a'`) and referenced by it (`'a'`):
    lelwel resolves, analyses and emits such references through separate code (Regex::Symbol arms)"""
    import copy
    h = copy.copy(g); h.meta = dict(g.meta); h.name = g.name + '_sym'
    h.meta['symbols'] = set(g.tokens[::2] if which is None else which)        # every other token: both arms in one grammar
    return h

def show(x, ctx=0, sym=()):
    k = x[0]
    if k == 'tok': return symbol_of(x[1]) if x[1] in sym else x[1]
    if k == 'ref': return x[1]
    if k in PREC:
        sep = {'alt': ' | ', 'choice': ' / ', 'seq': ' '}[k]
        s = sep.join(show(y, PREC[k] + (1 if k != 'seq' else 1), sym) for y in x[1])
        return '(' + s + ')' if PREC[k] < ctx else s
    if k == 'opt': return '[' + show(x[1], 0, sym) + ']'
    if k in ('star', 'plus'):
        inner = x[1]
        s = show(inner, 3, sym)
        if inner[0] in PREC or inner[0] in EPS_KINDS: s = '(' + show(inner, 0, sym) + ')'
        return s + ('*' if k == 'star' else '+')
    if k == 'rename': return '@' + x[1]
    if k == 'elide': return '^'
    if k == 'mark': return '<%d' % x[1]
    if k == 'create': return ('%d' % x[1] if x[1] is not None else '') + '>' + (x[2] or '')
    if k == 'action': return '#%d' % x[1]
    if k == 'pred': return '?%d' % x[1]
    if k == 'ptrue': return '?t'
    if k == 'assert': return '!%d' % x[1]
    if k == 'commit': return '~'
    if k == 'ret': return '&'
    raise ValueError(x)

# ---------------------------------------------------------------- small analyses on the model (independent of lelwel)
def productive_rules(g):
    """set of rules that derive some finite token string"""
    rules = g.rules_dict(); prod = set()
    def p(x):
        k = x[0]
        if k == 'tok' or k in EPS_KINDS: return True
        if k == 'ref': return x[1] in prod
        if k == 'seq': return all(p(y) for y in x[1])
        if k in ('alt', 'choice'): return any(p(y) for y in x[1])
        if k in ('opt', 'star'): return True
        if k == 'plus': return p(x[1])
        raise ValueError(x)
    ch = True
    while ch:
        ch = False
        for n, r in rules.items():
            if n not in prod and (r is None or p(r)): prod.add(n); ch = True
    return prod

def reachable_rules(g):
    rules = g.rules_dict(); seen = set(); work = [g.start] + list(g.parts)
    def refs(x, out):
        if x is None: return
        if x[0] == 'ref': out.add(x[1])
        elif x[0] in ('seq', 'alt', 'choice'):
            for y in x[1]: refs(y, out)
        elif x[0] in ('opt', 'star', 'plus'): refs(x[1], out)
    while work:
        n = work.pop()
        if n in seen or n not in rules: continue
        seen.add(n); o = set(); refs(rules[n], o); work.extend(o)
    return seen

def is_reduced(g):
    rules = set(g.rules_dict())
    return productive_rules(g) >= rules and reachable_rules(g) >= rules

def parse_simple(text, name='g'):
    """Parser for the printer's own output plus a little slack (used for curated grammars written as text).
    Supports: token/skip/right/start/part decls, rules with the full regex syntax, identifiers only (no 'symbols')."""
    text = re.sub(r'//[^\n]*', '', text)
    toks = re.findall(r"[A-Za-z_][A-Za-z_0-9]*|\?t|\?\d+|#\d+|!\d+|@[a-z_0-9]*|<\d+|\d*>[a-z_0-9]*|[:;()\[\]|*+^/~&]", text)
    pos = [0]
    def peek(): return toks[pos[0]] if pos[0] < len(toks) else None
    def eat(t=None):
        x = peek()
        if t is not None and x != t: raise SyntaxError(f'expected {t} got {x} at {pos[0]} in {name}')
        pos[0] += 1; return x
    tokens = []; skip = []; right = []; parts = []; start = None; rules = []
    def regex():
        xs = [ch()]
        while peek() == '|': eat(); xs.append(ch())
        return xs[0] if len(xs) == 1 else ('alt', tuple(xs))
    def ch():
        xs = [cat()]
        while peek() == '/': eat(); xs.append(cat())
        return xs[0] if len(xs) == 1 else ('choice', tuple(xs))
    def cat():
        xs = []
        while peek() not in (None, '|', '/', ')', ']', ';'): xs.append(post())
        if not xs: raise SyntaxError('empty concat in ' + name)
        return xs[0] if len(xs) == 1 else ('seq', tuple(xs))
    def post():
        x = atom()
        while peek() in ('*', '+'): x = ('star' if eat() == '*' else 'plus', x)
        return x
    def atom():
        t = eat()
        if t == '(':
            x = regex(); eat(')'); return x
        if t == '[':
            x = regex(); eat(']'); return ('opt', x)
        if t == '?t': return PTRUE
        if t[0] == '?': return ('pred', int(t[1:]))
        if t[0] == '#': return ('action', int(t[1:]))
        if t[0] == '!': return ('assert', int(t[1:]))
        if t[0] == '@': return ('rename', t[1:])
        if t[0] == '<': return ('mark', int(t[1:]))
        if '>' in t:
            a, b = t.split('>'); return ('create', int(a) if a else None, b or None)
        if t == '^': return ELIDE
        if t == '~': return COMMIT
        if t == '&': return RET
        if re.fullmatch(r'[A-Z]\w*', t): return ('tok', t)
        if re.fullmatch(r'[a-z_]\w*', t): return ('ref', t)
        raise SyntaxError(f'atom {t} in {name}')
    while peek() is not None:
        t = eat()
        if t in ('token', 'skip', 'right', 'part'):
            lst = {'token': tokens, 'skip': skip, 'right': right, 'part': parts}[t]
            while peek() != ';': lst.append(eat())
            eat(';')
        elif t == 'start': start = eat(); eat(';')
        else:
            el = False
            if peek() == '^': eat(); el = True
            eat(':')
            r = None if peek() == ';' else regex()
            eat(';'); rules.append((t, el, r))
    return Grammar(tokens, rules, start, skip, right, parts, name=name)
